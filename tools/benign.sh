#!/bin/sh
# usage: benign.sh [NN ...] -- applies each behaviour-preserving patch of /verif/benign to a scratch clone of /repo
# and runs every registered quick check on it (or those listed in benign/<NN>.props); any VIOLATION line is a false alarm.
export GOFLAGS=-mod=mod GOPROXY=off GOSUMDB=off GOTOOLCHAIN=local
S=$(mktemp -d /tmp/benign.XXXXXX)
git clone -q /repo "$S/repo" || exit 2
mkdir -p "$S/ev"
ids="$*"
[ -z "$ids" ] && ids=$(ls /verif/benign | grep '\.diff$' | sed 's/\.diff//')
claimed=$(python3 -c "import json;print(' '.join(c['property_id'] for c in json.load(open('/verif/MANIFEST.json'))['checks']))")
for m in $ids; do
  ( cd "$S/repo" && git reset -q --hard HEAD && git clean -fdq && (git apply /verif/benign/$m.diff 2>/dev/null || git apply -3 /verif/benign/$m.diff 2>/dev/null) ) || { echo "$m: PATCH DOES NOT APPLY"; continue; }
  res=""
  props="$claimed"
  # benign/<NN>.props (optional): the properties whose functions the patch touches; default all
  [ -f /verif/benign/$m.props ] && props=$(cat /verif/benign/$m.props)
  for q in $props; do
    out=$(GOCV_EVIDENCE_DIR="$S/ev" /verif/bin/gocv check -repo "$S/repo" -prop $q -tier quick 2>&1)
    v=$(echo "$out" | grep -c "^VIOLATION")
    u=$(echo "$out" | grep -c "^UNDECIDED\|^UNBOUND")
    [ "$v" != "0" ] && res="$res $q:VIOLATIONS=$v[$(echo "$out" | grep "^VIOLATION" | head -1 | sed 's/.*replay=\/verif\/replay\///' | cut -c1-90)]"
    [ "$v" = "0" ] && [ "$u" != "0" ] && res="$res $q:undecided=$u"
  done
  [ -z "$res" ] && res=" clean"
  echo "$m:$res"
done
rm -rf "$S"
