#!/bin/sh
# usage: mutcheck.sh <patch.diff> <prop> [tier]   -- applies a seeded change to /repo, runs the check, reverts.
patch="$1"; prop="$2"; tier="${3:-quick}"
cd /repo || exit 2
git diff --quiet || { echo "repo dirty"; exit 2; }
git apply "$patch" 2>/dev/null || git apply -3 "$patch" || { echo "PATCH DOES NOT APPLY: $patch"; git checkout -- . ; exit 3; }
GOCV_EVIDENCE_DIR=$(mktemp -d /tmp/mutcheck_ev.XXXXXX) /verif/check "$prop" "$tier" 2>&1 | grep -v '^  ' | tail -8
rc=$?
git reset -q --hard HEAD; git clean -fdq 2>/dev/null
git status --short | head -3
