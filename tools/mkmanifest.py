#!/usr/bin/env python3
"""Regenerates /verif/MANIFEST.json from the table below (single source of truth)."""
import json, os, subprocess
V = '/verif'
BASELINE_OFF = ("cd /repo && export GOFLAGS=-mod=mod GOPROXY=off GOSUMDB=off GOTOOLCHAIN=local && "
                "go build ./... && go test -json -vet=off -count=1 -timeout 25m ./...")
# property -> (level text, level note, design ref, technique)  -- only for claimed properties
CLAIMED = {}
NOT_APPLICABLE = {}
exec(open(os.path.join(V, 'tools', 'props_table.py')).read())
props = [json.loads(l)['id'] for l in open(os.path.join(V, 'properties.jsonl'))]
checks = []
for p in props:
    if p in CLAIMED:
        c = CLAIMED[p]
        checks.append({
            "property_id": p,
            "quick_cmd": f"/verif/check {p} quick",
            "thorough_cmd": f"/verif/check {p} thorough",
            "evidence_file": f"/verif/evidence/{p}.json",
            "replay_cmd_template": "cat {path}",
            "engine": "gocv",
            "level_claimed": {"category": "proof", "text": c["text"], "design_ref": c.get("ref", "DESIGN.md §4")},
            "level_note": c["note"],
            "technique": c.get("technique", "contract-based deductive verification: weakest-precondition VCs over go/ssa of the real code, discharged by z3/cvc5"),
        })
na = [{"property_id": p, "reason": NOT_APPLICABLE[p]} for p in props if p not in CLAIMED]
hooks = []
try:
    out = subprocess.run(['git', '-C', '/repo', 'log', '--format=%H %s'], capture_output=True, text=True).stdout
    for l in out.splitlines():
        h, s = l.split(' ', 1)
        if s.startswith('verif:'):
            hooks.append(h)
except Exception:
    pass
m = {
    "version": 1,
    "setup_cmd": "cd /verif && ./setup.sh",
    "hooks": {
        "guard": "verif",
        "enable": "go build tag `verif` (-tags verif): compiles the comment-only contract files <pkg>/verif_contracts*.go with their pure spec functions; no executable code of the packages changes",
        "baseline_off_cmd": BASELINE_OFF,
        "source_commits": hooks,
        "add_only": True,
    },
    "engines": [{
        "name": "gocv", "path": "/verif/gocv",
        "serves_properties": sorted(CLAIMED.keys()),
        "kind_free_text": "self-written VC generator for Go: go/packages+go/ssa (x/tools v0.29.0) -> guarded commands -> SMT-LIB, contracts as //@ comments in /repo/<pkg>/verif_contracts*.go (build tag verif), portfolio z3 5.1.0 / z3 4.8.12 / cvc5 1.0.3; x86 assembly front end over `go tool objdump`",
    }],
    "checks": checks,
    "not_applicable": na,
    "notes": "See DESIGN.md. Every check rebuilds from /repo's working tree. Known findings: /verif/known_findings.json.",
}
json.dump(m, open(os.path.join(V, 'MANIFEST.json'), 'w'), indent=1)
print("claimed:", sorted(CLAIMED.keys()), "not_applicable:", len(na))
