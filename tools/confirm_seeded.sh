#!/bin/sh
# usage: confirm_seeded.sh [ids...] -- for each seeded change, on a scratch clone of /repo:
#   (1) with the change: the existing suite passes, the demonstration test FAILS;
#   (2) without the change: the demonstration test PASSES.
# Appends one line per change to stdout and records the outcome in seeded/<id>/meta.json ("confirmed").
export GOFLAGS=-mod=mod GOPROXY=off GOSUMDB=off GOTOOLCHAIN=local
S=$(mktemp -d /tmp/confirm.XXXXXX)
git clone -q /repo "$S/repo" || exit 2
ids="$*"
[ -z "$ids" ] && ids=$(ls /verif/seeded | grep '^C')
for m in $ids; do
  d=/verif/seeded/$m
  dir=$(python3 -c "import json;print(json.load(open('$d/meta.json')).get('demo_package_dir','.'))")
  cd "$S/repo" && git reset -q --hard HEAD && git clean -fdq
  (git apply $d/patch.diff 2>/dev/null || git apply -3 $d/patch.diff 2>/dev/null) || { echo "$m: PATCH DOES NOT APPLY"; continue; }
  suite=$(go build ./... 2>&1 && go test -vet=off -count=1 -timeout 20m ./... 2>&1 | grep -c "^FAIL\|^--- FAIL")
  cp $d/demo_test.go "$dir/zz_demo_test.go"
  with=$(go test -vet=off -count=1 -timeout 10m -run 'Demo' "./$dir/" 2>&1 | grep -c "^--- FAIL\|^FAIL")
  git reset -q --hard HEAD && git clean -fdq
  cp $d/demo_test.go "$dir/zz_demo_test.go"
  without=$(go test -vet=off -count=1 -timeout 10m -run 'Demo' "./$dir/" 2>&1 | grep -c "^--- FAIL\|^FAIL")
  rm -f "$dir/zz_demo_test.go"
  ok=no
  [ "$suite" = "0" ] && [ "$with" != "0" ] && [ "$without" = "0" ] && ok=yes
  echo "$m: suite_failures_with_change=$suite demo_failures_with_change=$with demo_failures_without_change=$without confirmed=$ok"
  python3 - "$d/meta.json" "$suite" "$with" "$without" "$ok" <<'PY'
import json,sys
p,suite,w,wo,ok=sys.argv[1:]
m=json.load(open(p))
m['confirmed']={'how':'tools/confirm_seeded.sh on a scratch clone: go build ./... && go test ./... with the change (existing suite), then demo_test.go with and without the change','existing_suite_failures_with_change':int(suite),'demo_failures_with_change':int(w),'demo_failures_without_change':int(wo),'ok':ok=='yes'}
json.dump(m,open(p,'w'),indent=1)
PY
done
rm -rf "$S"
