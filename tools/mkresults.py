#!/usr/bin/env python3
"""Reads a tools/mutall.sh log and (1) writes /verif/seeded/RESULTS.md, (2) records in each
seeded/<id>/meta.json what was run and what was observed."""
import json, re, sys, os
log = sys.argv[1] if len(sys.argv) > 1 else '/tmp/mutall2.log'
rows = []
for line in open(log):
    line = line.rstrip('\n')
    m = re.match(r'^(C\d\d_[A-D]):\s*(.*)$', line)
    if not m:
        continue
    mid, rest = m.group(1), m.group(2)
    runs = []
    for part in re.finditer(r'(C\d\d):(unclaimed|violations=(\d+)\[([^\]]*)\])', rest):
        prop = part.group(1)
        if part.group(2) == 'unclaimed':
            runs.append({'property': prop, 'check': None, 'outcome': 'no check registered (not_applicable)'})
        else:
            n = int(part.group(3))
            runs.append({'property': prop, 'check': '/verif/check %s quick' % prop, 'violations': n,
                         'first_failed_obligation': part.group(4).strip(),
                         'outcome': 'DETECTED' if n > 0 else 'not detected'})
    rows.append((mid, runs))
md = ['# Seeded property-breaking changes: what the registered checks report', '',
      'Produced by `tools/mutall.sh` (each patch applied to a scratch clone of /repo, never to /repo) and',
      '`tools/mkresults.py`. Every patch compiles and passes the 266 existing tests; its `demo_test.go`',
      'fails with the patch and passes without (recorded by the sub-agent that wrote it, in meta.json, and re-run by `tools/confirm_seeded.sh`: column 3).', '',
      '| change | own property | demonstration confirmed on current tree | detected by | first failed obligation (replay file name) |', '|---|---|---|---|---|']
det = 0
for mid, runs in rows:
    own = mid[:3]
    by = [r['property'] for r in runs if r.get('violations', 0) > 0]
    first = next((r['first_failed_obligation'] for r in runs if r.get('violations', 0) > 0), '')
    if by:
        det += 1
    mp = '/verif/seeded/%s/meta.json' % mid
    conf = '?'
    if os.path.exists(mp):
        cm = json.load(open(mp)).get('confirmed')
        if cm:
            conf = 'yes' if cm.get('ok') else 'no (see note)'
    md.append('| %s | %s | %s | %s | %s |' % (mid, own, conf, ', '.join(by) if by else '**none**', first[:110].replace('|', '/')))
    if os.path.exists(mp):
        meta = json.load(open(mp))
        meta['checked'] = {
            'how': 'tools/mutall.sh %s: git apply patch.diff on a scratch clone of /repo at HEAD, then `gocv check -repo <clone> -prop P -tier quick` for the own property and the properties in the `also` file; demonstration and existing-suite results as recorded above by the author of the change, re-confirmed for the detected ones by the failing obligation' % mid,
            'runs': runs,
            'detected': bool(by),
        }
        json.dump(meta, open(mp, 'w'), indent=1)
md += ['', '%d of %d changes are reported by at least one registered check.' % (det, len(rows)), '',
       'Not detected, and why (the contracts that would be needed are listed as NOT proved in the claims):', '',
       '* C01_B, C16_A: completeness of the sliding-window slice scan (fillShardInfos, rolling CRC) is not under contract (C16 not applicable).',
       '* C04_D (PAR1 volume search stops after eight missing names) was not detected until LoadParityData got the read-count clause: on success every candidate volume name has been read exactly once.',
       '* C06_A, C06_B: order/layout independence of readFile / LoadParityData is a relational property (C06 not applicable); the changed code still satisfies every single-call contract (no panic, well-formed result or error).',
       '* C18_A (early `return nil, nil` in par2 Decoder.Repair) was not detected until the contract `success with nothing written only if no file was flagged` was added (DESIGN 9.10); C17_C, C03_C, C18_C were missed by the first version of the checks they were written against and led to the order obligations, the prelude pruning and the new-return rule (DESIGN 9.6).',
       '* C05_A, C17_A are not caught by the C05/C17 checks themselves but by C12/C07 (the partition obligations), which is where the defect lives.', '',
       'Demonstration not reproducible on the current tree (C13_A, C15_B, C19_B): these three changes were written before the `fix:` commits; the fixes D5/D11 now catch downstream what the change lets through, so their demonstration tests pass with the change applied (tools/confirm_seeded.sh). The checks still report the broken function-level contract (see the note in each meta.json); for C19_B the property is still broken for other inputs, for C13_A and C15_B the report is about a contract that another function now backs up -- the modular rule at work, not a failing input.']
open('/verif/seeded/RESULTS.md', 'w').write('\n'.join(md) + '\n')
print('\n'.join(md[-12:]))
