#!/bin/sh
# usage: mutall.sh [mutant-ids...]  -- runs every seeded change (default: all) against the check of its own
# property on a scratch clone of /repo (never touches /repo or /verif/evidence). Output: one line per mutant.
export GOFLAGS=-mod=mod GOPROXY=off GOSUMDB=off GOTOOLCHAIN=local
S=$(mktemp -d /tmp/mutrepo.XXXXXX)
git clone -q /repo "$S/repo" || exit 2
mkdir -p "$S/ev"
ids="$*"
[ -z "$ids" ] && ids=$(ls /verif/seeded)
claimed=$(python3 -c "import json;print(' '.join(c['property_id'] for c in json.load(open('/verif/MANIFEST.json'))['checks']))")
for m in $ids; do
  p=${m%%_*}
  props="$p"
  [ -f /verif/seeded/$m/also ] && props="$props $(cat /verif/seeded/$m/also)"
  ( cd "$S/repo" && git reset -q --hard HEAD && git clean -fdq && (git apply /verif/seeded/$m/patch.diff 2>/dev/null || git apply -3 /verif/seeded/$m/patch.diff 2>/dev/null) ) || { echo "$m: PATCH DOES NOT APPLY"; continue; }
  res=""
  for q in $props; do
    case " $claimed " in *" $q "*) ;; *) res="$res $q:unclaimed"; continue;; esac
    out=$(GOCV_T2=25 GOCV_EVIDENCE_DIR="$S/ev" /verif/bin/gocv check -repo "$S/repo" -prop $q -tier quick 2>&1)
    v=$(echo "$out" | grep -c "^VIOLATION")
    first=$(echo "$out" | grep "^VIOLATION" | head -1 | sed 's/.*replay=\/verif\/replay\///' | cut -c1-110)
    res="$res $q:violations=$v[$first]"
  done
  echo "$m:$res"
done
rm -rf "$S"
