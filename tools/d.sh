#!/bin/sh
# usage: d.sh <func-substring> [t1 t2]  -- show non-proved obligations
/verif/bin/gocv dump -func "$1" -solve -t1 ${2:-3} -t2 ${3:-8} 2>&1 | grep -v "^  proved" | cut -c1-250
