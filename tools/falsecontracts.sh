#!/bin/sh
# usage: falsecontracts.sh  -- engine self-test against unsoundness: each line of tools/false_contracts.txt adds a
# deliberately FALSE clause to a contract (in a scratch clone of /repo, never in /repo); the verifier must not
# discharge it. "ACCEPTED" means the engine proved something false: a hole in the engine, to be fixed before any
# pass is believed. (Found this way: ghost state not propagated through callees, DESIGN 9.3.)
export GOFLAGS=-mod=mod GOPROXY=off GOSUMDB=off GOTOOLCHAIN=local
S=$(mktemp -d /tmp/falsec.XXXXXX)
git clone -q /repo "$S/repo" || exit 2
bad=0; n=0
grep -v '^#' /verif/tools/false_contracts.txt | while IFS='|' read -r pkg fn clause; do
  [ -z "$pkg" ] && continue
  ( cd "$S/repo" && git reset -q --hard HEAD )
  f=$(grep -l -F -x "//@ func $fn" "$S/repo/$pkg"/verif_contracts*.go | head -1)
  [ -z "$f" ] && { echo "$pkg $fn: no contract found"; continue; }
  python3 - "$f" "$fn" "$clause" <<'PY'
import sys
f,fn,clause=sys.argv[1:]
L=open(f).read().split('\n')
for i,l in enumerate(L):
    if l == '//@ func '+fn:
        j=i+1
        while j < len(L) and L[j].startswith('//@   props'):
            j+=1
        L.insert(j,'//@   '+clause)
        break
open(f,'w').write('\n'.join(L))
PY
  key="github.com/akalin/gopar/$pkg::$fn"
  out=$(/verif/bin/gocv dump -repo "$S/repo" -func "$key" -solve -t1 3 -t2 10 2>&1)
  body=$(echo "$clause" | sed 's/^ensures //')
  lines=$(echo "$out" | grep -F "#ensures:$body#")
  if [ -z "$lines" ]; then echo "$pkg $fn [$clause]: NO OBLIGATION GENERATED"; continue; fi
  if echo "$lines" | grep -qv "^  proved"; then echo "$pkg $fn [$clause]: rejected"; else echo "$pkg $fn [$clause]: ACCEPTED (engine unsound)"; fi
done
rm -rf "$S"
