# Edited by hand; read by mkmanifest.py.
_wip = "contracts for this property are not yet discharged on the tree (work in progress in this round); no check is registered until every obligation is accepted"
for _p in ["C01","C02","C03","C04","C05","C06","C07","C08","C09","C10","C11","C12","C13","C14","C15","C16","C17","C18","C19","C20"]:
    NOT_APPLICABLE[_p] = _wip
