# Edited by hand; read by mkmanifest.py.
_wip = "contracts for this property are not yet discharged on the tree (work in progress in this round); no check is registered until every obligation is accepted"
for _p in ["C01","C02","C03","C04","C05","C06","C07","C08","C09","C10","C11","C12","C13","C14","C15","C16","C17","C18","C19","C20"]:
    NOT_APPLICABLE[_p] = _wip

def claim(p, text, note, ref="DESIGN.md §4"):
    CLAIMED[p] = {"text": text, "note": note, "ref": ref}
    NOT_APPLICABLE.pop(p, None)

claim("C08",
  "Proof, for all operands: gf2.Poly64.Times/Div/ilog2 and gf2p16.T.Times/Inverse/Div/Pow/Plus/Minus are verified function by function against recursive shift-xor spec functions (specClmul, specDeg, specGfmul = multiplication modulo 0x1100B, specGfpow, specPow3) with loop invariants and decreases clauses; every bounds/div-by-zero/panic obligation is discharged; 30 lemmas about the spec functions (additivity, xtime laws, 3^a*3^b=3^(a+b mod 65535), power law) are proved by SMT with explicit induction schemes. The log/exp and product tables written by init are closed finite facts decided by evaluating the table invariant on the real initialised package for every entry (labelled evaluated, not deduced).",
  "Trusted: SMT solvers, go/ssa lowering, the gocv VC generator, termination of the spec functions; frozen-global discipline (tables are written only by init). gf2p16.init's table-building loop is not under a deductive contract (its result is evaluated exhaustively instead). The thorough tier adds the 2^32-case reference check specGfmul == reduced carry-less product.",
  "DESIGN.md §4 C08")
