#!/bin/sh
# Builds the verification engine from files on disk only (offline).
set -e
export GOFLAGS=-mod=mod GOPROXY=off GOSUMDB=off GOTOOLCHAIN=local
cd /verif/gocv
mkdir -p /verif/bin /verif/evidence /verif/replay
go build -o /verif/bin/gocv .
echo "gocv built"
