package par2

// Demonstration of known finding D7 (property C03) against the real code. Injected into the
// package with `go test -overlay` (see /verif/known_findings/run_d7.sh); never part of /repo.

import (
	"path/filepath"
	"testing"

	"github.com/akalin/gopar/memfs"
)

func TestKnownFindingD7(t *testing.T) {
	workingDir := memfs.RootDir()
	fs := makeDecoderMemFS(workingDir)
	buildPAR2Data(t, fs, workingDir, 4, 3)
	parPath := filepath.Join(workingDir, "file.par2")

	// the two protected files file.rar (4 bytes, one full slice) and dir2/dir3/file.r03 swap their
	// contents: neither is byte-identical to its protected content any more
	p1 := "file.rar"
	p2 := filepath.Join("dir2", "dir3", "file.r03")
	d1, err := fs.ReadFile(p1)
	if err != nil {
		t.Fatal(err)
	}
	d2, err := fs.ReadFile(p2)
	if err != nil {
		t.Fatal(err)
	}
	c1, c2 := append([]byte{}, d1...), append([]byte{}, d2...)
	if err := fs.WriteFile(p1, c2); err != nil {
		t.Fatal(err)
	}
	if err := fs.WriteFile(p2, c1); err != nil {
		t.Fatal(err)
	}

	result, err := verify(testFileIO{t, fs}, parPath, VerifyOptions{NumGoroutines: 1})
	if err != nil {
		t.Fatal(err)
	}
	if !result.ShardCounts.RepairNeeded() {
		t.Logf("D7 reproduced: two protected files hold each other's contents, yet Verify reports RepairNeeded() == false (counts %+v)", result.ShardCounts)
		return
	}
	t.Fatalf("D7 NOT reproduced: Verify now reports repair needed (counts %+v)", result.ShardCounts)
}
