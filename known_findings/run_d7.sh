#!/bin/sh
# Replays known finding D7 on /repo's current tree without writing into it.
export GOFLAGS=-mod=mod GOPROXY=off GOSUMDB=off GOTOOLCHAIN=local
D=$(mktemp -d /tmp/d7.XXXXXX)
printf '{"Replace":{"/repo/par2/zz_d7_replay_test.go":"/verif/known_findings/d7_replay_test.go"}}' > "$D/ov.json"
cd /repo && go test -overlay "$D/ov.json" -vet=off -count=1 -timeout 120s -run TestKnownFindingD7 -v ./par2/ 2>&1 | tail -5
rm -rf "$D"
