package main

import (
	"crypto/sha256"
	"encoding/json"
	"flag"
	"fmt"
	"os"
	"path/filepath"
	"sort"
	"strconv"
	"strings"
	"time"

	"golang.org/x/tools/go/ssa"
)

type FnReport struct {
	Func        string   `json:"func"`
	Mode        string   `json:"mode"`
	Contract    string   `json:"contract"` // given | auto (safety only) | assumed
	Obligations int      `json:"obligations"`
	Discharged  int      `json:"discharged"`
	Fingerprint string   `json:"ssa_sha256"`
	Unbound     []string `json:"unbound,omitempty"`
	Subset      []string `json:"outside_subset,omitempty"`
}

type checkRun struct {
	e        *Engine
	prop     string
	tier     string
	obs      []*Oblig
	fns      []*FnReport
	probes   []*Oblig
	assumed  map[string]bool
	notes    map[string]bool
	undecided []string
	extraViol []violation
	lemmaN    int
	bounded   []string
	extraCov  map[string]interface{}
}

type violation struct {
	name   string
	reason string
	detail string
	replay string
	input  bool // a failing input was found
}

func hasProp(props []string, p string) bool {
	for _, x := range props {
		if x == p {
			return true
		}
	}
	return false
}

var checkTmpDir string

func cleanTmp() {
	if os.Getenv("GOCV_KEEP") == "" && checkTmpDir != "" {
		os.RemoveAll(checkTmpDir)
	}
}

var sweepProps = map[string]bool{"C12": true}

func runCheck(args []string) {
	fs := flag.NewFlagSet("check", flag.ExitOnError)
	prop := fs.String("prop", "", "property id")
	tier := fs.String("tier", "quick", "quick|thorough")
	repo := fs.String("repo", "/repo", "repository")
	verif := fs.String("verif", "/verif", "verif dir")
	writeBaseline := fs.Bool("write-baseline", false, "write the obligation inventory")
	verbose := fs.Bool("v", false, "verbose")
	if len(args) > 0 && args[0] == "check" {
		args = args[1:]
	}
	fs.Parse(args)
	if t := os.Getenv("VERIF_TIER"); t != "" && *tier == "" {
		*tier = t
	}
	seed := 0
	if s := os.Getenv("VERIF_SEED"); s != "" {
		seed, _ = strconv.Atoi(s)
	}
	t0 := time.Now()
	evPath := filepath.Join(*verif, "evidence", *prop+".json")
	if d := os.Getenv("GOCV_EVIDENCE_DIR"); d != "" {
		evPath = filepath.Join(d, *prop+".json") // runs on scratch copies (seeded changes) must not touch the evidence of the real tree
	}
	os.MkdirAll(filepath.Dir(evPath), 0755)
	os.Remove(evPath)

	e, err := newEngine(*repo)
	if err != nil {
		// the tree does not build: nothing can be decided
		fmt.Printf("ERROR: cannot load %s: %v\n", *repo, err)
		replay := filepath.Join(*verif, "replay", *prop+"_load.txt")
		os.MkdirAll(filepath.Dir(replay), 0755)
		os.WriteFile(replay, []byte(fmt.Sprintf("obligation: %s#load\nthe repository (with -tags verif) does not type-check:\n%v\n", *prop, err)), 0644)
		fmt.Printf("VIOLATION property=%s replay=%s no-failing-input-found\n", *prop, replay)
		writeEvidence(evPath, *prop, *tier, seed, nil, time.Since(t0).Seconds(), 1, []string{"load failure"})
		os.Exit(1)
	}
	e.tier = *tier
	e.curProp = *prop
	if !*writeBaseline {
		e.loopSigs = loadLoopSigs(filepath.Join(*verif, "baseline", "loops.json"))
	}
	e.knownNames = map[string]bool{}
	for _, k := range loadKnownFindings(filepath.Join(*verif, "known_findings.json")).Findings {
		if k.Status == "known" && k.Property == *prop {
			e.knownNames[k.Obligation] = true
		}
	}
	cr := &checkRun{e: e, prop: *prop, tier: *tier, assumed: map[string]bool{}, notes: map[string]bool{}, extraCov: map[string]interface{}{}}
	for _, er := range e.contracts.Errors {
		cr.undecided = append(cr.undecided, "contract syntax: "+er)
	}
	cr.collect()
	cr.preSolveChecks()
	t1, t2 := 4, 45
	if *tier == "thorough" {
		t1, t2 = 10, 150
	}
	if v := os.Getenv("GOCV_T2"); v != "" {
		// sweeps over seeded changes: shorter second stage and no final retry (a failing obligation
		// stays failing; only the time to report it shrinks)
		if n, err := strconv.Atoi(v); err == nil && n > 0 {
			t2 = n
			e.noRetry = true
		}
	}
	dir := filepath.Join(os.TempDir(), fmt.Sprintf("gocv_%s_%d", *prop, os.Getpid()))
	checkTmpDir = dir
	defer cleanTmp()
	all := append([]*Oblig{}, cr.obs...)
	all = append(all, cr.probes...)
	e.solveAll(all, dir, t1, t2, 16)
	cr.extraChecks(*verif)
	cr.report(*verif, evPath, seed, t0, *writeBaseline, *verbose)
}

// collect gathers the functions and lemmas of the property and translates them.
func (cr *checkRun) collect() {
	e := cr.e
	done := map[*ssa.Function]bool{}
	var work []*ssa.Function
	for _, k := range e.contracts.Order {
		c := e.contracts.Funcs[k]
		if !hasProp(c.Props, cr.prop) {
			continue
		}
		fn, ok := e.funcs[k]
		if !ok {
			if c.Assumed {
				continue // interface-method / external contract
			}
			cr.undecided = append(cr.undecided, fmt.Sprintf("UNBOUND contract %s (%s): no such function", c.Func, c.Pos))
			cr.fns = append(cr.fns, &FnReport{Func: pkgShort(c.Pkg) + "." + c.Func, Contract: "unbound", Unbound: []string{"no such function"}})
			continue
		}
		work = append(work, fn)
	}
	for len(work) > 0 {
		fn := work[0]
		work = work[1:]
		if done[fn] {
			continue
		}
		done[fn] = true
		c := e.contractFor(fn)
		rep := &FnReport{Func: pkgShort(pkgPathOf(fn)) + "." + relName(fn), Contract: "given"}
		if c == nil {
			rep.Contract = "auto (safety only)"
		}
		if c != nil && c.Assumed {
			rep.Contract = "assumed"
			cr.assumed[rep.Func+" (assumed contract, body not verified)"] = true
			cr.fns = append(cr.fns, rep)
			continue
		}
		if len(fn.Blocks) == 0 {
			rep.Contract = "external (no body)"
			cr.fns = append(cr.fns, rep)
			continue
		}
		if c == nil && e.simpleScalarFn(fn, 0) {
			// a scalar helper without contract is translated as a term at each call site, where its
			// run-time-safety conditions are obligations in the caller's context (helperSafety);
			// on its own, without the caller's facts, there is nothing to decide about it
			rep.Contract = "inlined as a term at its call sites"
			cr.fns = append(cr.fns, rep)
			continue
		}
		fc := e.newFnCtx(fn)
		func() {
			defer func() {
				if r := recover(); r != nil {
					fc.subset = append(fc.subset, fmt.Sprintf("engine failure: %v", r))
				}
			}()
			fc.translate()
		}()
		rep.Mode = fc.mode.String()
		rep.Fingerprint = fingerprint(fn)
		rep.Unbound = fc.unbound
		rep.Subset = fc.subset
		rep.Obligations = len(fc.obligs)
		for _, u := range fc.unbound {
			cr.undecided = append(cr.undecided, fmt.Sprintf("UNBOUND in %s: %s", rep.Func, u))
		}
		if len(fc.subset) > 0 {
			o := &Oblig{Fn: fc.name, Name: fc.name + "#subset:" + strings.Join(fc.subset, ","), Kind: "subset", Status: "unknown",
				Detail: "function uses constructs outside the verified subset: " + strings.Join(fc.subset, ", "), fc: fc, goal: TFalse}
			o.preSolved = true
			cr.obs = append(cr.obs, o)
		}
		cr.obs = append(cr.obs, fc.obligs...)
		cr.fns = append(cr.fns, rep)
		for a := range fc.usedAssumed {
			cr.assumed[a] = true
		}
		for callee := range fc.calledRepo {
			cr.assumed["callee without contract (effects havocked, its own safety not verified here): "+pkgShort(pkgPathOf(callee))+"."+relName(callee)] = true
		}
		for _, n := range fc.notes {
			cr.notes[n] = true
		}
		// vacuity probe: some return must be reachable under the assumptions
		if p := fc.vacuityProbe(); p != nil {
			cr.probes = append(cr.probes, p)
		}
		if sweepProps[cr.prop] {
			var cs []*ssa.Function
			for callee := range fc.calledRepo {
				cs = append(cs, callee)
			}
			sort.Slice(cs, func(i, j int) bool { return cs[i].String() < cs[j].String() })
			work = append(work, cs...)
		}
	}
	for _, l := range e.contracts.Lemmas {
		if !hasProp(l.Props, cr.prop) {
			continue
		}
		if l.Tier == "thorough" && cr.tier != "thorough" {
			continue
		}
		if l.Kind != "smt" {
			continue // handled by extraChecks
		}
		o, err := e.lemmaObligation(l)
		if err != nil {
			cr.undecided = append(cr.undecided, fmt.Sprintf("UNBOUND lemma %s: %v", l.Name, err))
			continue
		}
		cr.lemmaN++
		cr.obs = append(cr.obs, o)
		if p := o.fc.vacuityProbeLemma(o); p != nil {
			cr.probes = append(cr.probes, p)
		}
	}
}

func pkgPathOf(fn *ssa.Function) string {
	for fn.Pkg == nil && fn.Parent() != nil {
		fn = fn.Parent()
	}
	if fn.Pkg != nil {
		return fn.Pkg.Pkg.Path()
	}
	return ""
}

func fingerprint(fn *ssa.Function) string {
	var sb strings.Builder
	fn.WriteTo(&sb)
	h := sha256.Sum256([]byte(sb.String()))
	return fmt.Sprintf("%x", h[:8])
}

// vacuityProbe: "no return is reachable" must NOT be provable.
func (fc *FnCtx) vacuityProbe() *Oblig {
	var rets []Term
	last := -1
	for _, b := range fc.order {
		if _, ok := fc.reach[b.Index]; !ok || len(b.Instrs) == 0 {
			continue
		}
		if _, ok := b.Instrs[len(b.Instrs)-1].(*ssa.Return); ok {
			rets = append(rets, fc.reach[b.Index])
			last = b.Index
		}
	}
	rets = append(rets, fc.exitReach...)
	if last < 0 && len(fc.exitReach) == 0 {
		return nil
	}
	// evaluated at the last return block in RPO with all facts of all blocks visible
	o := &Oblig{Fn: fc.name, Name: fc.name + "#vacuity", Kind: "vacuity", blk: -2, seq: 1 << 30, goal: Not(Or(rets...)), fc: fc, NoReach: true}
	return o
}

func (fc *FnCtx) vacuityProbeLemma(orig *Oblig) *Oblig {
	return &Oblig{Fn: fc.name, Name: fc.name + "#vacuity", Kind: "vacuity", blk: orig.blk, seq: orig.seq, goal: TFalse, fc: fc, NoReach: true}
}

type evidence struct {
	PropertyID  string                 `json:"property_id"`
	Tier        string                 `json:"tier"`
	Seed        int                    `json:"seed"`
	Level       string                 `json:"level"`
	Coverage    map[string]interface{} `json:"coverage"`
	Assumptions []string               `json:"assumptions"`
	WallS       float64                `json:"wall_s"`
	Violations  int                    `json:"violations"`
}

func writeEvidence(path, prop, tier string, seed int, cov map[string]interface{}, wall float64, viol int, assumptions []string) {
	if cov == nil {
		cov = map[string]interface{}{"obligations": 1, "discharged": 0, "checker_cmd": "gocv check", "trusted_base": []string{}, "explanation": "repository failed to load"}
	}
	ev := evidence{prop, tier, seed, "proof", cov, assumptions, wall, viol}
	b, _ := json.MarshalIndent(ev, "", " ")
	os.WriteFile(path, b, 0644)
}

// ensuresClauseOf: "<fn>#ensures:<clause>#<return ordinal>" -> "<fn>#ensures:<clause>" ("" for other kinds).
func ensuresClauseOf(name string) string {
	i := strings.Index(name, "#ensures:")
	j := strings.LastIndex(name, "#")
	if i < 0 || j <= i {
		return ""
	}
	for _, c := range name[j+1:] {
		if c < '0' || c > '9' {
			return ""
		}
	}
	if j+1 == len(name) {
		return ""
	}
	return name[:j]
}

type baselineFile struct {
	Property    string   `json:"property"`
	Obligations []string `json:"obligations"`
}

func (cr *checkRun) report(verif, evPath string, seed int, t0 time.Time, writeBaseline, verbose bool) {
	e := cr.e
	basePath := filepath.Join(verif, "baseline", cr.prop+"."+cr.tier+".json")
	base := map[string]bool{}
	clauseBase := map[string]bool{}
	haveBase := false
	if b, err := os.ReadFile(basePath); err == nil {
		var bf baselineFile
		if json.Unmarshal(b, &bf) == nil {
			haveBase = true
			for _, n := range bf.Obligations {
				base[n] = true
				if c := ensuresClauseOf(n); c != "" {
					clauseBase[c] = true
				}
			}
		}
	}
	known := loadKnownFindings(filepath.Join(verif, "known_findings.json"))
	discharged := 0
	backends := map[string]int{}
	var solverSecs float64
	var viols []violation
	var samples []map[string]interface{}
	fnDis := map[string]int{}
	seen := map[string]bool{}
	var otherProps []string
	for _, o := range cr.obs {
		seen[o.Name] = true
		solverSecs += o.Secs
		if o.Status == "proved" {
			discharged++
			backends[o.Solver]++
			fnDis[o.Fn]++
			if len(samples) < 6 && o.Solver != "trivial" {
				samples = append(samples, map[string]interface{}{"obligation": o.Name, "at": o.Pos, "smt_bytes": o.Size, "solver": o.Solver, "secs": round3(o.Secs)})
			}
			continue
		}
		if verbose {
			fmt.Printf("  FAILED %s: %s (%s) %s %s\n", o.Name, o.Status, o.Solver, o.Pos, truncate(o.Detail+" "+o.Model, 1500))
		}
		inBase := base[o.Name]
		newReturn := false
		if c := ensuresClauseOf(o.Name); !inBase && c != "" && clauseBase[c] {
			// the same postcondition clause was discharged at every return of the unchanged
			// function; this instance belongs to a return that did not exist there
			inBase, newReturn = true, true
		}
		if !relevantTo(o, cr.prop) && known.match(cr.prop, o.Name) == nil {
			// an obligation that belongs to other properties of the same function: their checks
			// report it; it is not an alarm for this property
			otherProps = append(otherProps, o.Name)
			continue
		}
		switch {
		case o.Status == "refuted":
			viols = append(viols, violation{name: o.Name, reason: "refuted by " + o.Solver, detail: o.Model})
		case inBase || !haveBase:
			why := "it was discharged on the unchanged tree"
			if newReturn {
				why = "this postcondition was discharged at every return of the function on the unchanged tree; this return is new"
			}
			viols = append(viols, violation{name: o.Name, reason: fmt.Sprintf("not discharged (%s); %s", o.Status, why), detail: o.Detail + "\n" + o.Model})
		default:
			if known.match(cr.prop, o.Name) != nil {
				// a recorded finding stays a finding whether the solver refutes the obligation or merely fails to prove it
				viols = append(viols, violation{name: o.Name, reason: "recorded finding: " + o.Status, detail: o.Detail + "\n" + o.Model})
				break
			}
			cr.undecided = append(cr.undecided, fmt.Sprintf("UNDECIDED %s: %s (new obligation, no counterexample)", o.Name, o.Status))
		}
	}
	for _, p := range cr.probes {
		if p.Status == "proved" {
			viols = append(viols, violation{name: p.Name, reason: "contract or code is vacuous: no return is reachable under the assumed preconditions/invariants"})
		}
	}
	viols = append(viols, cr.extraViol...)
	// obligations that existed on the unchanged tree but are no longer generated
	var missing []string
	if haveBase {
		for n := range base {
			if !seen[n] {
				missing = append(missing, n)
			}
		}
		sort.Strings(missing)
	}
	for i := range cr.fns {
		cr.fns[i].Discharged = fnDis[cr.fns[i].Func]
	}
	if writeBaseline {
		var names []string
		for _, o := range cr.obs {
			if o.Status == "proved" {
				names = append(names, o.Name)
			}
		}
		sort.Strings(names)
		os.MkdirAll(filepath.Dir(basePath), 0755)
		b, _ := json.MarshalIndent(baselineFile{cr.prop, names}, "", " ")
		os.WriteFile(basePath, b, 0644)
		fmt.Printf("baseline written: %s (%d obligations)\n", basePath, len(names))
		e.saveLoopSigs(filepath.Join(verif, "baseline", "loops.json"))
	}
	// known findings
	nViol := 0
	replayDir := filepath.Join(verif, "replay")
	os.MkdirAll(replayDir, 0755)
	var knownPrinted []string
	for _, v := range viols {
		if kf := known.match(cr.prop, v.name); kf != nil {
			knownPrinted = append(knownPrinted, fmt.Sprintf("KNOWN-FINDING: property=%s %s (%s)", cr.prop, kf.What, v.name))
			continue
		}
		nViol++
		rp := filepath.Join(replayDir, fmt.Sprintf("%s_%s.txt", cr.prop, sanitize(v.name)))
		v2 := cr.tryReplay(v, rp)
		suffix := ""
		if !v2.input {
			suffix = " no-failing-input-found"
		}
		fmt.Printf("VIOLATION property=%s replay=%s%s\n", cr.prop, rp, suffix)
		fmt.Printf("  obligation: %s\n  reason: %s\n", v.name, v.reason)
	}
	if len(otherProps) > 0 {
		sort.Strings(otherProps)
		fmt.Printf("NOTE: %d undischarged obligations of this run speak about other properties of the same functions and are left to their checks, e.g. %s\n", len(otherProps), otherProps[0])
	}
	sort.Strings(knownPrinted)
	for _, k := range knownPrinted {
		fmt.Println(k)
	}
	for _, u := range cr.undecided {
		fmt.Println(u)
	}
	if len(missing) > 0 {
		fmt.Printf("NOTE: %d obligations of the unchanged tree are no longer generated (code or contract shape changed), e.g. %s\n", len(missing), missing[0])
	}
	// evidence
	var trusted []string
	for a := range cr.assumed {
		trusted = append(trusted, a)
	}
	sort.Strings(trusted)
	trusted = append(trusted,
		"SMT solvers z3 4.8.12 / z3 5.1.0 / cvc5 1.0.3 (an `unsat` answer is trusted)",
		"golang.org/x/tools/go/ssa v0.29.0 lowering of the source (verified text = SSA of /repo's working tree, -tags verif)",
		"gocv VC generator (memory model, wrap-around arithmetic, loop cutting, frame rule)",
		"termination of the recursive spec functions in verif_contracts*.go")
	var notes []string
	for n := range cr.notes {
		notes = append(notes, n)
	}
	sort.Strings(notes)
	assumptions := append([]string{}, trusted...)
	assumptions = append(assumptions, notes...)
	assumptions = append(assumptions, propAssumptions[cr.prop]...)
	// slowest obligations (stability monitoring)
	sorted := append([]*Oblig{}, cr.obs...)
	sort.Slice(sorted, func(i, j int) bool { return sorted[i].Secs > sorted[j].Secs })
	var slowest []string
	for i := 0; i < len(sorted) && i < 5; i++ {
		slowest = append(slowest, fmt.Sprintf("%.2fs %s (%s)", sorted[i].Secs, sorted[i].Name, sorted[i].Solver))
	}
	cov := map[string]interface{}{
		"slowest":            slowest,
		// obligations = what this property's claim needs discharged: everything generated, minus the
		// obligations recorded as known findings (reported by KNOWN-FINDING lines) and minus the
		// undischarged obligations that speak about other properties of the same functions
		"obligations":                  len(cr.obs) - len(knownPrinted) - len(otherProps),
		"obligations_generated":        len(cr.obs),
		"known_finding_obligations":    len(knownPrinted),
		"other_property_undischarged":  len(otherProps),
		"discharged":                   discharged,
		"checker_cmd":        fmt.Sprintf("/verif/bin/gocv check -prop %s -tier %s", cr.prop, cr.tier),
		"trusted_base":       trusted,
		"functions":          cr.fns,
		"functions_under_contract": len(cr.fns),
		"lemmas":             cr.lemmaN,
		"backends":           backends,
		"solver_secs":        round3(solverSecs),
		"samples":            samples,
		"vacuity_probes":     len(cr.probes),
		"undecided":          cr.undecided,
		"known_findings":     knownPrinted,
		"baseline_inventory": len(base),
		"baseline_missing":   missing,
		"bounded_stand_ins":  cr.bounded,
		"integer_model":      "per function: `int` = 64-bit integers as mathematical Int with exact wrap-around (no overflow assumed away), <=32-bit as bit-vectors; `bv` = all integers as bit-vectors",
	}
	for k, v := range cr.extraCov {
		cov[k] = v
	}
	if len(samples) == 0 {
		cov["samples"] = []string{"(no non-trivial obligation)"}
	}
	writeEvidence(evPath, cr.prop, cr.tier, seed, cov, time.Since(t0).Seconds(), nViol, assumptions)
	fmt.Printf("%s %s: functions=%d obligations=%d discharged=%d lemmas=%d violations=%d known=%d undecided=%d wall=%.1fs\n",
		cr.prop, cr.tier, len(cr.fns), len(cr.obs)-len(knownPrinted)-len(otherProps), discharged, cr.lemmaN, nViol, len(knownPrinted), len(cr.undecided), time.Since(t0).Seconds())
	_ = e
	if nViol > 0 {
		cleanTmp(); os.Exit(1)
	}
	if len(cr.obs) == 0 {
		fmt.Println("ERROR: no obligations generated (vacuous check)")
		cleanTmp(); os.Exit(2)
	}
}

func round3(f float64) float64 { return float64(int(f*1000)) / 1000 }

var propAssumptions = map[string][]string{}

// ---- relevance of an obligation to the property being checked ------
//
// A function is usually under contract for several properties and its contract is verified as a
// whole, but a failed obligation is an alarm only for the properties it speaks about:
//   * run-time-safety obligations (bounds, nil, make length, division, explicit panic) belong to
//     the properties whose claim includes absence of panics;
//   * a clause that mentions the ghost state or the spec vocabulary of particular properties
//     (I/O-failure flag, write log, exit status, path functions, hashes, ID order) belongs to those;
//   * everything else (and every clause tagged explicitly with @Cxx) belongs to all properties of
//     the function.
var runtimeSafetyKinds = map[string]bool{"bounds": true, "nil": true, "nilmap": true, "makelen": true, "div0": true, "shift": true, "typeassert": true, "panic": true, "panic-allowed": true, "pre-nopanic": true}
var safetyProps = map[string]bool{"C13": true, "C19": true, "C08": true, "C09": true, "C11": true, "C07": true, "C12": true, "C04": true, "C10": true}
var vocabulary = []struct {
	tokens []string
	props  []string
}{
	{[]string{"gIOFailed"}, []string{"C18"}},
	{[]string{"gWrites", "gLastWriteOK", "gLastWritePath"}, []string{"C02", "C14"}},
	{[]string{"gRepairCalls", "gRepairOK", "gRepairNotEnough", "exitCode", "os.Exit"}, []string{"C20"}},
	{[]string{"pathJoin(", "pathDir(", "pathBase(", "pathRel(", "pathAbs(", "pathClean(", "pathIsAbs(", "fpIsAbs(", "safeName("}, []string{"C15", "C17", "C05"}},
	{[]string{"md5("}, []string{"C02", "C03", "C04", "C05", "C10", "C14", "C13", "C19"}},
	{[]string{"ult("}, []string{"C05", "C17"}},
}

func relevantTo(o *Oblig, prop string) bool {
	if o.preSolved || o.fc == nil {
		return true // static / call-graph / assembly obligations are generated per property
	}
	if runtimeSafetyKinds[o.Kind] {
		return safetyProps[prop]
	}
	if o.Kind == "forkjoin" {
		return prop == "C12" || prop == "C07"
	}
	tags := map[string]bool{}
	for _, v := range vocabulary {
		for _, t := range v.tokens {
			if strings.Contains(o.Desc, t) {
				for _, p := range v.props {
					tags[p] = true
				}
			}
		}
	}
	if len(tags) == 0 {
		return true
	}
	return tags[prop]
}

// ---- known findings -----------------------------------------------

type knownFinding struct {
	Property   string `json:"property"`
	Obligation string `json:"obligation"` // exact obligation name
	What       string `json:"what"`
	Status     string `json:"status"` // known | fixed
	Commit     string `json:"commit,omitempty"`
}

type knownSet struct {
	Findings []knownFinding `json:"findings"`
}

func loadKnownFindings(path string) *knownSet {
	ks := &knownSet{}
	if b, err := os.ReadFile(path); err == nil {
		json.Unmarshal(b, ks)
	}
	return ks
}

func (ks *knownSet) match(prop, name string) *knownFinding {
	for i, k := range ks.Findings {
		if k.Status == "known" && k.Property == prop && k.Obligation == name {
			return &ks.Findings[i]
		}
	}
	return nil
}

// tryReplay writes the replay file; when the obligation was refuted it tries to
// run the model against the real code (replay.go).
func (cr *checkRun) tryReplay(v violation, path string) violation {
	var sb strings.Builder
	fmt.Fprintf(&sb, "property: %s\nobligation: %s\nreason: %s\n", cr.prop, v.name, v.reason)
	var ob *Oblig
	for _, o := range cr.obs {
		if o.Name == v.name {
			ob = o
		}
	}
	if ob != nil {
		fmt.Fprintf(&sb, "at: %s\nsolver: %s status: %s\n", ob.Pos, ob.Solver, ob.Status)
		res := cr.replay(ob)
		if res.ran {
			fmt.Fprintf(&sb, "\n--- replay against the real code ---\n%s\n", res.log)
		}
		if res.failed {
			v.input = true
			fmt.Fprintf(&sb, "\nRESULT: failing input confirmed on the real code\n")
		} else {
			fmt.Fprintf(&sb, "\nRESULT: no-failing-input-found (the obligation is not discharged; solver output below)\n")
		}
		if ob.RawQuery != "" {
			fmt.Fprintf(&sb, "\n--- solver output ---\n%s\n--- query ---\n%s\n", truncate(ob.Model, 20000), truncate(ob.RawQuery, 200000))
		} else if ob.fc != nil && ob.goal.S != "" && ob.Kind != "subset" && ob.Kind != "extra" {
			q := ob.fc.query(ob)
			if len(q) > 200000 {
				q = q[:200000] + "\n; (truncated)\n"
			}
			fmt.Fprintf(&sb, "\n--- solver output ---\n%s\n--- query ---\n%s\n", truncate(ob.Model, 20000), q)
		}
	}
	if v.detail != "" && ob == nil {
		fmt.Fprintf(&sb, "\n--- detail ---\n%s\n", truncate(v.detail, 50000))
		if v.input {
			fmt.Fprintf(&sb, "\nRESULT: failing input confirmed on the real code\n")
		}
	}
	os.WriteFile(path, []byte(sb.String()), 0644)
	return v
}

func truncate(s string, n int) string {
	if len(s) > n {
		return s[:n] + "\n...(truncated)"
	}
	return s
}
