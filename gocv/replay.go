package main

type replayResult struct {
	ran    bool
	failed bool
	log    string
}

// replay tries to confirm a refuted obligation on the real code.
func (cr *checkRun) replay(o *Oblig) replayResult {
	return replayResult{}
}
