package main

import (
	"fmt"
	"go/types"
	"os"
	"regexp"
	"strconv"
	"strings"
	"time"

	"golang.org/x/tools/go/ssa"
)

type replayResult struct {
	ran    bool
	failed bool
	log    string
}

var modelRe = regexp.MustCompile(`\(define-fun \|?(p_[A-Za-z0-9_.]+)![0-9]+\|? \(\) (\(_ BitVec [0-9]+\)|Int|Bool)\s+([^\n]+)\)`)

// parseModel extracts parameter values from a solver model.
func parseModel(out string) map[string]string {
	m := map[string]string{}
	out = strings.ReplaceAll(out, "\n    ", " ")
	for _, mt := range modelRe.FindAllStringSubmatch(out, -1) {
		name := strings.TrimPrefix(mt[1], "p_")
		val := strings.TrimSpace(mt[3])
		switch {
		case strings.HasPrefix(val, "#x"):
			if n, err := strconv.ParseUint(val[2:], 16, 64); err == nil {
				m[name] = fmt.Sprintf("%d", n)
			}
		case strings.HasPrefix(val, "#b"):
			if n, err := strconv.ParseUint(val[2:], 2, 64); err == nil {
				m[name] = fmt.Sprintf("%d", n)
			}
		case strings.HasPrefix(val, "(- "):
			m[name] = "-" + strings.TrimSuffix(strings.TrimPrefix(val, "(- "), ")")
		case val == "true" || val == "false":
			m[name] = val
		default:
			if _, err := strconv.ParseInt(val, 10, 64); err == nil {
				m[name] = val
			}
		}
	}
	return m
}

func scalarGoType(t types.Type) (string, bool) {
	switch u := t.Underlying().(type) {
	case *types.Basic:
		if _, _, ok := basicIntInfo(u); ok {
			return types.TypeString(t, func(*types.Package) string { return "" }), true
		}
		if u.Kind() == types.Bool {
			return "bool", true
		}
	}
	return "", false
}

// replay tries to confirm a failed obligation on the real code: the function is
// run on the solver's model (if any) and on a structured + seeded-random input
// sweep, with the contract (panics clause, Go-expressible ensures) as oracle.
func (cr *checkRun) replay(o *Oblig) replayResult {
	if o.Replayed {
		return replayResult{ran: true, failed: o.Status == "refuted", log: o.Model}
	}
	if o.Fn == "gf2p16.asm" || (strings.HasPrefix(o.Fn, "gf2p16.") && strings.Contains(o.Fn, "ByteSliceLE")) || strings.Contains(o.Name, "lemma:tables") {
		return cr.replayAsm(o)
	}
	if strings.HasPrefix(o.Fn, "rsec16.applyMatrix") || strings.HasPrefix(o.Fn, "rsec16.(Coder).GenerateParity") || strings.HasPrefix(o.Fn, "rsec16.(Coder).applyMatrix") || strings.HasPrefix(o.Fn, "rsec16.calculateParallelParams") {
		return cr.replayApplyMatrix()
	}
	if strings.HasPrefix(o.Fn, "gf2p16.(Matrix).") || strings.HasPrefix(o.Fn, "gf2p16.NewMatrix") || strings.HasPrefix(o.Fn, "gf2p16.NewIdentityMatrix") {
		return cr.replayMatrix()
	}
	if o.fc == nil || o.fc.fn == nil || o.fc.c == nil {
		return replayResult{}
	}
	fn := o.fc.fn
	if fn.Pkg == nil || fn.Parent() != nil {
		return replayResult{}
	}
	src, ok := cr.replaySource(o.fc, parseModel(o.Model))
	if !ok {
		return replayResult{}
	}
	out, _ := cr.e.runInjectedTest(fn.Pkg.Pkg.Path(), "zz_gocv_replay_test.go", src, "TestGocvReplay", 120*time.Second)
	res := replayResult{ran: true}
	var keep []string
	for _, ln := range strings.Split(out, "\n") {
		if strings.HasPrefix(ln, "GOCV-REPLAY") {
			keep = append(keep, ln)
			if strings.HasPrefix(ln, "GOCV-REPLAY-FAIL") {
				res.failed = true
			}
		}
	}
	if len(keep) == 0 {
		keep = append(keep, truncate(out, 3000))
	}
	res.log = "test source injected with `go test -tags verif -overlay` into " + fn.Pkg.Pkg.Path() + ":\n" + src + "\noutput:\n" + strings.Join(keep, "\n")
	return res
}

func (cr *checkRun) replaySource(fc *FnCtx, model map[string]string) (string, bool) {
	fn := fc.fn
	c := fc.c
	sig := fn.Signature
	// a leaf is one scalar input: a scalar parameter, or one scalar field of a parameter
	// whose type is a struct of scalars declared in the package (e.g. par2.ShardCounts)
	type par struct{ name, typ, target, model, strct string }
	var ps []par
	var tops []string
	for _, p := range fn.Params {
		name := p.Name()
		if name == "" || name == "_" {
			return "", false
		}
		tops = append(tops, name)
		if gt, ok := scalarGoType(p.Type()); ok {
			ps = append(ps, par{name: name, typ: gt, model: name})
			continue
		}
		st, isStruct := p.Type().Underlying().(*types.Struct)
		nt, isNamed := p.Type().(*types.Named)
		if !isStruct || !isNamed || nt.Obj().Pkg() != fn.Pkg.Pkg || st.NumFields() == 0 {
			return "", false
		}
		for i := 0; i < st.NumFields(); i++ {
			f := st.Field(i)
			gt, ok := scalarGoType(f.Type())
			if !ok || f.Name() == "_" {
				return "", false
			}
			strct := ""
			if i == 0 {
				strct = nt.Obj().Name()
			}
			ps = append(ps, par{name: name + "_" + f.Name(), typ: gt, target: name + "." + f.Name(), model: fmt.Sprintf("%s.%d", name, i), strct: strct})
		}
	}
	if len(ps) == 0 || len(ps) > 5 {
		return "", false
	}
	var resNames []string
	for i := 0; i < sig.Results().Len(); i++ {
		if _, ok := scalarGoType(sig.Results().At(i).Type()); !ok {
			return "", false
		}
		n := sig.Results().At(i).Name()
		if n == "" || n == "_" {
			n = fmt.Sprintf("result%d", i)
		}
		resNames = append(resNames, n)
	}
	seed := os.Getenv("VERIF_SEED")
	if seed == "" {
		seed = "1"
	}
	var sb strings.Builder
	fmt.Fprintf(&sb, "//go:build verif\n\npackage %s\n\nimport (\n\t\"fmt\"\n\t\"math/rand\"\n\t\"testing\"\n)\n\n", fn.Pkg.Pkg.Name())
	sb.WriteString("func gocvVals(bits int, rng *rand.Rand) []uint64 {\n\tvs := []uint64{0, 1, 2, 3, 4, 5, 7, 8, 15, 16, 17, 255, 256, 257}\n\tfor k := 3; k < bits; k++ {\n\t\tvs = append(vs, uint64(1)<<uint(k), uint64(1)<<uint(k)-1, uint64(1)<<uint(k)+1)\n\t}\n\tvs = append(vs, 65534, 65535, 65536, 65537, 131070, 131071, 4294967295, 18446744073709551615, 9223372036854775807, 9223372036854775808)\n\tfor i := 0; i < 40; i++ {\n\t\tvs = append(vs, rng.Uint64()>>uint(rng.Intn(64)))\n\t}\n\treturn vs\n}\n\n")
	fmt.Fprintf(&sb, "func TestGocvReplay(gocvT *testing.T) {\n\trng := rand.New(rand.NewSource(%s))\n\tcases := 0\n", seed)
	// value lists
	bitsOf := func(t string) int {
		switch t {
		case "uint8", "byte", "int8":
			return 8
		case "uint16", "int16", "T":
			return 16
		case "uint32", "int32":
			return 32
		}
		return 64
	}
	for _, p := range ps {
		if p.typ == "bool" {
			fmt.Fprintf(&sb, "\tvals_%s := []uint64{0, 1}\n", p.name)
			continue
		}
		fmt.Fprintf(&sb, "\tvals_%s := gocvVals(%d, rng)\n", p.name, bitsOf(p.typ))
		if v, ok := model[p.model]; ok && v != "true" && v != "false" {
			if strings.HasPrefix(v, "-") {
				fmt.Fprintf(&sb, "\tvals_%s = append([]uint64{uint64(int64(%s))}, vals_%s...)\n", p.name, v, p.name)
			} else {
				fmt.Fprintf(&sb, "\tvals_%s = append([]uint64{%s}, vals_%s...)\n", p.name, v, p.name)
			}
		}
	}
	capN := map[int]int{1: 1000000, 2: 1400, 3: 120, 4: 36, 5: 14}[len(ps)]
	for _, p := range ps {
		fmt.Fprintf(&sb, "\tif len(vals_%s) > %d { vals_%s = vals_%s[:%d] }\n", p.name, capN, p.name, p.name, capN)
	}
	indent := "\t"
	for _, p := range ps {
		if p.strct != "" {
			fmt.Fprintf(&sb, "%svar %s %s\n", indent, strings.SplitN(p.target, ".", 2)[0], p.strct)
		}
		fmt.Fprintf(&sb, "%sfor _, raw_%s := range vals_%s {\n", indent, p.name, p.name)
		indent += "\t"
		lhs := p.name + " :="
		if p.target != "" {
			lhs = p.target + " ="
		}
		if p.typ == "bool" {
			fmt.Fprintf(&sb, "%s%s raw_%s != 0\n", indent, lhs, p.name)
		} else {
			fmt.Fprintf(&sb, "%s%s %s(raw_%s)\n", indent, lhs, p.typ, p.name)
		}
	}
	for _, n := range tops {
		fmt.Fprintf(&sb, "%s%s_old := %s\n%s_, _ = %s, %s_old\n", indent, n, n, indent, n, n)
	}
	// requires
	for _, r := range c.Requires {
		g, err := goExpr(r.Text)
		if err != nil {
			return "", false
		}
		fmt.Fprintf(&sb, "%sif !(%s) { continue }\n", indent, g)
	}
	for _, r := range c.ReplayReq {
		fmt.Fprintf(&sb, "%sif !(%s) { continue }\n", indent, r)
	}
	fmt.Fprintf(&sb, "%scases++\n", indent)
	// call
	var argNames []string
	start := 0
	call := ""
	if sig.Recv() != nil {
		start = 1
		call = fmt.Sprintf("%s.%s", tops[0], fn.Name())
	} else {
		call = fn.Name()
	}
	argNames = append(argNames, tops[start:]...)
	var fmts, fargs []string
	for _, n := range tops {
		fmts = append(fmts, n+"=%+v")
		fargs = append(fargs, n)
	}
	desc := fmt.Sprintf("fmt.Sprintf(\"%s\", %s)", strings.Join(fmts, " "), strings.Join(fargs, ", "))
	panicsAllowed := "false"
	if c.Panics != nil {
		if g, err := goExpr(c.Panics.Text); err == nil {
			panicsAllowed = g
		}
	}
	fmt.Fprintf(&sb, "%sfunc() {\n%s\tdefer func() {\n%s\t\tif r := recover(); r != nil {\n%s\t\t\tif !(%s) {\n%s\t\t\t\tfmt.Printf(\"GOCV-REPLAY-FAIL %s panics (%%v) on input %%s\\n\", r, %s)\n%s\t\t\t\tgocvT.Fail()\n%s\t\t\t}\n%s\t\t}\n%s\t}()\n",
		indent, indent, indent, indent, panicsAllowed, indent, fc.name, desc, indent, indent, indent, indent)
	lhs := strings.Join(resNames, ", ")
	if lhs != "" {
		fmt.Fprintf(&sb, "%s\t%s := %s(%s)\n", indent, lhs, call, strings.Join(argNames, ", "))
		for _, n := range resNames {
			fmt.Fprintf(&sb, "%s\t_ = %s\n", indent, n)
		}
		if len(resNames) == 1 {
			fmt.Fprintf(&sb, "%s\tresult := %s\n%s\t_ = result\n", indent, resNames[0], indent)
			if resNames[0] != "result0" {
				fmt.Fprintf(&sb, "%s\tresult0 := result\n%s\t_ = result0\n", indent, indent)
			}
		}
	} else {
		fmt.Fprintf(&sb, "%s\t%s(%s)\n", indent, call, strings.Join(argNames, ", "))
	}
	if c.Panics != nil && panicsAllowed != "false" {
		fmt.Fprintf(&sb, "%s\tif %s {\n%s\t\tfmt.Printf(\"GOCV-REPLAY-FAIL %s did not panic although the contract requires it, input %%s\\n\", %s)\n%s\t\tgocvT.Fail()\n%s\t}\n", indent, panicsAllowed, indent, fc.name, desc, indent, indent)
	}
	nClauses := 0
	for _, en := range c.Ensures {
		g, err := goExpr(en.Text)
		if err != nil || strings.Contains(g, "gocvParForall") {
			continue
		}
		// parameters in ensures denote entry values
		nClauses++
		fmt.Fprintf(&sb, "%s\tif !(%s) {\n%s\t\tfmt.Printf(\"GOCV-REPLAY-FAIL %s violates ensures %%q on input %%s (results: %%v)\\n\", %q, %s, []interface{}{%s})\n%s\t\tgocvT.Fail()\n%s\t}\n",
			indent, g, indent, fc.name, en.Text, desc, lhs, indent, indent)
	}
	fmt.Fprintf(&sb, "%s}()\n", indent)
	fmt.Fprintf(&sb, "%sif gocvT.Failed() { return }\n", indent)
	for range ps {
		indent = indent[:len(indent)-1]
		fmt.Fprintf(&sb, "%s}\n", indent)
	}
	fmt.Fprintf(&sb, "\tfmt.Printf(\"GOCV-REPLAY-DONE cases=%%d clauses=%d\\n\", cases)\n}\n", nClauses)
	return sb.String(), true
}

var _ = ssa.Function{}

var asmLenRe = regexp.MustCompile(`\(define-fun inlen \(\) \(_ BitVec 64\)\s+#x([0-9a-f]+)\)`)

// replayAsm runs the real kernels (both dispatch paths) against the portable Go kernel on
// guarded buffers: lengths from the solver's model plus the boundary lengths of the property.
func (cr *checkRun) replayAsm(o *Oblig) replayResult {
	lens := []uint64{2, 4, 30, 32, 34, 62, 64, 66, 96, 1000, 65534, 65536, 65538, 131072, 131074}
	if m := asmLenRe.FindStringSubmatch(o.Model); m != nil {
		if n, err := strconv.ParseUint(m[1], 16, 64); err == nil && n <= 1<<22 {
			lens = append([]uint64{n &^ 1}, lens...)
		}
	}
	var ls []string
	for _, n := range lens {
		ls = append(ls, fmt.Sprint(n))
	}
	src := `//go:build verif

package gf2p16

import (
	"fmt"
	"math/rand"
	"testing"
)

func TestGocvReplayAsm(t *testing.T) {
	rng := rand.New(rand.NewSource(1))
	const guard = 1 << 18
	for _, n := range []int{` + strings.Join(ls, ", ") + `} {
		for _, c := range []T{0, 1, 2, 3, 0x100b, 0x8000, 0xfffe, 0xffff, T(rng.Intn(65536))} {
			for _, ssse3 := range []bool{false, true} {
				for _, add := range []bool{false, true} {
					for _, align := range []int{0, 1, 7} {
						buf := make([]byte, 2*guard+n+8)
						rng.Read(buf)
						inb := make([]byte, n+8)
						rng.Read(inb)
						in := inb[align : align+n]
						out := buf[guard+align : guard+align+n]
						want := append([]byte{}, buf...)
						wout := want[guard+align : guard+align+n]
						in0 := append([]byte{}, inb...)
						if add {
							mulAndAddByteSliceLEGeneric(c, in, wout)
							mulAndAddByteSliceLE(c, in, out, ssse3)
						} else {
							mulByteSliceLEGeneric(c, in, wout)
							mulByteSliceLE(c, in, out, ssse3)
						}
						for i := range buf {
							if buf[i] != want[i] {
								where := "inside out"
								if i < guard+align || i >= guard+align+n {
									where = "OUTSIDE the out buffer"
								}
								fmt.Printf("GOCV-REPLAY-FAIL kernel differs from c*in at byte %d (%s): len=%d c=%#x ssse3=%v muladd=%v align=%d\n", i-guard-align, where, n, c, ssse3, add, align)
								t.Fail()
								return
							}
						}
						for i := range inb {
							if inb[i] != in0[i] {
								fmt.Printf("GOCV-REPLAY-FAIL input modified at byte %d: len=%d c=%#x ssse3=%v muladd=%v\n", i-align, n, c, ssse3, add)
								t.Fail()
								return
							}
						}
					}
				}
			}
		}
	}
	fmt.Printf("GOCV-REPLAY-DONE lengths=%d\n", ` + fmt.Sprint(len(lens)) + `)
}
`
	out, _ := cr.e.runInjectedTest(repoMod+"/gf2p16", "zz_gocv_replay_asm_test.go", src, "TestGocvReplayAsm", 120*time.Second)
	res := replayResult{ran: true}
	var keep []string
	for _, ln := range strings.Split(out, "\n") {
		if strings.HasPrefix(ln, "GOCV-REPLAY") {
			keep = append(keep, ln)
			if strings.HasPrefix(ln, "GOCV-REPLAY-FAIL") {
				res.failed = true
			}
		}
	}
	if len(keep) == 0 {
		keep = append(keep, truncate(out, 3000))
	}
	res.log = "differential test of the real kernels (injected with go test -overlay into gf2p16):\n" + src + "\noutput:\n" + strings.Join(keep, "\n")
	return res
}

// injected runs an in-package test (through go test -overlay) and collects its GOCV-REPLAY lines.
func (cr *checkRun) injected(pkg, file, src, test string) replayResult {
	out, _ := cr.e.runInjectedTest(pkg, file, src, test, 180*time.Second)
	res := replayResult{ran: true}
	var keep []string
	for _, ln := range strings.Split(out, "\n") {
		if strings.HasPrefix(ln, "GOCV-REPLAY") {
			keep = append(keep, ln)
			if strings.HasPrefix(ln, "GOCV-REPLAY-FAIL") {
				res.failed = true
			}
		}
	}
	if len(keep) == 0 {
		keep = append(keep, truncate(out, 3000))
	}
	res.log = "test source injected with `go test -tags verif -overlay` into " + pkg + ":\n" + src + "\noutput:\n" + strings.Join(keep, "\n")
	return res
}

// replayApplyMatrix: witness search for the matrix-application obligations. The solver gives no
// model for them (quantified / nonlinear), so the executable reading of the contract is used
// as oracle: for a grid of shapes, lengths and goroutine counts every real entry point must
// produce out[r] word k = xor_j M[r][j]*in[j] word k, and must leave the inputs unchanged.
func (cr *checkRun) replayApplyMatrix() replayResult {
	src := `//go:build verif

package rsec16

import (
	"fmt"
	"math/rand"
	"testing"

	"github.com/akalin/gopar/gf2p16"
)

func TestGocvReplayApplyMatrix(t *testing.T) {
	rng := rand.New(rand.NewSource(1))
	for _, inRows := range []int{1, 2, 3, 8, 9, 12} {
		for _, outRows := range []int{1, 2, 3, 5} {
			for _, n := range []int{2, 4, 16, 18, 30, 32, 34, 48, 50, 64, 66, 100, 128, 1000} {
				m := gf2p16.NewMatrixFromFunction(outRows, inRows, func(i, j int) gf2p16.T { return gf2p16.T(rng.Intn(65536)) })
				in := make([][]byte, inRows)
				for j := range in {
					in[j] = make([]byte, n)
					rng.Read(in[j])
				}
				want := make([][]byte, outRows)
				for r := range want {
					want[r] = make([]byte, n)
					for k := 0; k < n/2; k++ {
						var w gf2p16.T
						for j := range in {
							w ^= m.At(r, j).Times(gf2p16.T(in[j][2*k]) | gf2p16.T(in[j][2*k+1])<<8)
						}
						want[r][2*k], want[r][2*k+1] = byte(w), byte(w>>8)
					}
				}
				in0 := make([][]byte, inRows)
				for j := range in {
					in0[j] = append([]byte{}, in[j]...)
				}
				for g := 1; g <= 9; g++ {
					for _, which := range []string{"applyMatrixParallelData", "applyMatrixParallelOut", "applyMatrixSingle"} {
						out := make([][]byte, outRows)
						for r := range out {
							out[r] = make([]byte, n)
						}
						switch which {
						case "applyMatrixParallelData":
							applyMatrixParallelData(m, in, out, g)
						case "applyMatrixParallelOut":
							applyMatrixParallelOut(m, in, out, g)
						default:
							applyMatrixSingle(m, in, out)
						}
						for r := range out {
							for b := range out[r] {
								if out[r][b] != want[r][b] {
									fmt.Printf("GOCV-REPLAY-FAIL %s: output row %d byte %d is %#x, the row-by-column product gives %#x (input rows=%d, output rows=%d, row length=%d bytes, goroutines=%d)\n", which, r, b, out[r][b], want[r][b], inRows, outRows, n, g)
									t.Fail()
									return
								}
							}
						}
						for j := range in {
							for b := range in[j] {
								if in[j][b] != in0[j][b] {
									fmt.Printf("GOCV-REPLAY-FAIL %s modified input row %d byte %d (rows=%d/%d, len=%d, goroutines=%d)\n", which, j, b, inRows, outRows, n, g)
									t.Fail()
									return
								}
							}
						}
					}
				}
			}
		}
	}
	fmt.Println("GOCV-REPLAY-OK applyMatrix*: every shape of the grid agrees with the row-by-column product")
}
`
	return cr.injected("github.com/akalin/gopar/rsec16", "zz_gocv_replay_apply_test.go", src, "TestGocvReplayApplyMatrix")
}

// replayMatrix: witness search for the Matrix obligations of gf2p16 (row operations, product,
// constructors, operands unchanged) on small random matrices, against their defining formulas.
func (cr *checkRun) replayMatrix() replayResult {
	src := `//go:build verif

package gf2p16

import (
	"fmt"
	"math/rand"
	"testing"
)

func TestGocvReplayMatrix(t *testing.T) {
	rng := rand.New(rand.NewSource(1))
	rnd := func(r, c int) Matrix {
		return NewMatrixFromFunction(r, c, func(i, j int) T { return T(rng.Intn(65536)) })
	}
	fail := func(format string, args ...interface{}) {
		fmt.Printf("GOCV-REPLAY-FAIL "+format+"\n", args...)
		t.Fail()
	}
	for rows := 1; rows <= 5; rows++ {
		for cols := 1; cols <= 6; cols++ {
			m := rnd(rows, cols)
			for i := 0; i < rows; i++ {
				for j := 0; j < rows; j++ {
					c := m.clone()
					c.swapRows(i, j)
					for r := 0; r < rows; r++ {
						src := r
						if r == i {
							src = j
						} else if r == j {
							src = i
						}
						for k := 0; k < cols; k++ {
							if c.At(r, k) != m.At(src, k) {
								fail("swapRows(%d,%d) on a %dx%d matrix: entry (%d,%d) is %#x, want %#x", i, j, rows, cols, r, k, c.At(r, k), m.At(src, k))
								return
							}
						}
					}
				}
				cst := T(rng.Intn(65535) + 1)
				c := m.clone()
				c.scaleRow(i, cst)
				for k := 0; k < cols; k++ {
					if c.At(i, k) != cst.Times(m.At(i, k)) {
						fail("scaleRow(%d) on a %dx%d matrix: column %d", i, rows, cols, k)
						return
					}
				}
				for j := 0; j < rows; j++ {
					if i == j {
						continue
					}
					c := m.clone()
					c.addScaledRow(i, j, cst)
					for k := 0; k < cols; k++ {
						if c.At(i, k) != m.At(i, k)^cst.Times(m.At(j, k)) {
							fail("addScaledRow(%d,%d) on a %dx%d matrix: column %d", i, j, rows, cols, k)
							return
						}
					}
				}
			}
			for inner := 1; inner <= 4; inner++ {
				a, b := rnd(rows, inner), rnd(inner, cols)
				a0, b0 := a.clone(), b.clone()
				p := a.Times(b)
				for i := 0; i < rows; i++ {
					for j := 0; j < cols; j++ {
						var w T
						for k := 0; k < inner; k++ {
							w ^= a.At(i, k).Times(b.At(k, j))
						}
						if p.At(i, j) != w {
							fail("Times of %dx%d by %dx%d: entry (%d,%d) is %#x, row-by-column product gives %#x", rows, inner, inner, cols, i, j, p.At(i, j), w)
							return
						}
					}
				}
				for i := range a.elements {
					if a.elements[i] != a0.elements[i] {
						fail("Times modified its left operand")
						return
					}
				}
				for i := range b.elements {
					if b.elements[i] != b0.elements[i] {
						fail("Times modified its right operand")
						return
					}
				}
			}
		}
	}
	// row reduction with row exchanges, square M and wide N: M * result must equal N
	for n := 1; n <= 4; n++ {
		for w := 1; w <= 6; w++ {
			for trial := 0; trial < 30; trial++ {
				m := rnd(n, n)
				if trial%2 == 0 && n > 1 {
					m.elements[0] = 0 // force a zero pivot now and then
				}
				nn := rnd(n, w)
				m0, n0 := m.clone(), nn.clone()
				res, err := m.RowReduceForInverse(nn)
				for i := range m.elements {
					if m.elements[i] != m0.elements[i] {
						fail("RowReduceForInverse modified M")
						return
					}
				}
				for i := range nn.elements {
					if nn.elements[i] != n0.elements[i] {
						fail("RowReduceForInverse modified N")
						return
					}
				}
				if err != nil {
					continue
				}
				back := m.Times(res)
				for i := range back.elements {
					if back.elements[i] != nn.elements[i] {
						fail("RowReduceForInverse of a %dx%d M with a %dx%d N: M * result differs from N at element %d", n, n, n, w, i)
						return
					}
				}
			}
		}
	}
	// Inverse: M * M^-1 == I whenever no error; an error only for a singular M (checked by rank-free
	// criterion: if Inverse fails, RowReduceForInverse of (M, I) must fail too)
	for n := 1; n <= 5; n++ {
		for trial := 0; trial < 40; trial++ {
			m := rnd(n, n)
			if trial%3 == 0 && n > 1 {
				m.elements[0] = 0
			}
			if trial%5 == 0 && n > 1 {
				copy(m.row(n-1), m.row(0)) // singular by construction
			}
			m0 := m.clone()
			inv, err := m.Inverse()
			for i := range m.elements {
				if m.elements[i] != m0.elements[i] {
					fail("Inverse modified its operand")
					return
				}
			}
			if trial%5 == 0 && n > 1 {
				if err == nil {
					fail("Inverse of a %dx%d matrix with two equal rows returned no error", n, n)
					return
				}
				continue
			}
			if err != nil {
				continue
			}
			prod := m.Times(inv)
			for i := 0; i < n; i++ {
				for j := 0; j < n; j++ {
					want := T(0)
					if i == j {
						want = 1
					}
					if prod.At(i, j) != want {
						fail("Inverse of a %dx%d matrix: (M * M^-1)[%d][%d] = %#x", n, n, i, j, prod.At(i, j))
						return
					}
				}
			}
		}
	}
	fmt.Println("GOCV-REPLAY-OK Matrix: row operations, product and row reduction agree with their defining formulas on the grid")
}
`
	return cr.injected("github.com/akalin/gopar/gf2p16", "zz_gocv_replay_matrix_test.go", src, "TestGocvReplayMatrix")
}
