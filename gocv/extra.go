package main

import (
	"os"
	"golang.org/x/tools/go/ssa/ssautil"
	"fmt"
	"strings"
	"golang.org/x/tools/go/ssa"
	"go/token"
	"sort"
	"time"
)

// extraChecks runs property-specific non-SMT checks (exhaustive evaluation of
// closed facts, assembly obligations, call-graph obligations).
// preSolveChecks adds obligations that go through the SMT portfolio but are not
// generated from Go SSA (assembly kernels).
func (cr *checkRun) preSolveChecks() {
	if cr.prop == "C09" {
		cr.asmChecks()
	}
	cr.frozenChecks()
}

// frozenChecks: the write-once discipline of `frozen` globals is a static obligation: outside
// the package initialisers a frozen global is only loaded, indexed for loading, or passed (by
// address of an element) to a function under contract, whose frame then accounts for it.
func (cr *checkRun) frozenChecks() {
	pkgs := map[string]bool{}
	for _, fr := range cr.fns {
		// Func is "<pkg>.<relname>"
		if i := strings.Index(fr.Func, "."); i > 0 {
			pkgs[fr.Func[:i]] = true
		}
	}
	var globals []*ssa.Global
	for g := range cr.e.globalIDs {
		if g.Pkg != nil && pkgs[g.Pkg.Pkg.Name()] && cr.e.contracts.Frozen[contractKey(g.Pkg.Pkg.Path(), g.Name())] {
			globals = append(globals, g)
		}
	}
	sort.Slice(globals, func(i, j int) bool { return globals[i].String() < globals[j].String() })
	for _, g := range globals {
		o := &Oblig{Fn: "frozen", Name: "frozen:" + g.Pkg.Pkg.Name() + "." + g.Name() + "#written-only-by-init", Kind: "frozen", preSolved: true, goal: TFalse, Solver: "SSA scan of every function of the package"}
		cr.obs = append(cr.obs, o)
		var bad []string
		var readOnly func(v ssa.Value, fn *ssa.Function) string
		readOnly = func(v ssa.Value, fn *ssa.Function) string {
			refs := v.Referrers()
			if refs == nil {
				return ""
			}
			for _, r := range *refs {
				switch x := r.(type) {
				case *ssa.UnOp:
					if x.Op != token.MUL {
						return "used by " + x.String()
					}
				case *ssa.IndexAddr:
					if x.X != v {
						return "used as index"
					}
					if why := readOnly(x, fn); why != "" {
						return why
					}
				case *ssa.FieldAddr:
					if why := readOnly(x, fn); why != "" {
						return why
					}
				case *ssa.DebugRef:
				case ssa.CallInstruction:
					callee, _ := x.Common().Value.(*ssa.Function)
					if callee == nil || (cr.e.contractFor(callee) == nil && !cr.e.isSpecFn(callee)) {
						return "passed to a function without contract: " + x.String()
					}
				case *ssa.Store:
					return "stored to at " + cr.e.prog.Fset.Position(x.Pos()).String()
				default:
					return "used by " + r.String()
				}
			}
			return ""
		}
		n := 0
		initOnly := initOnlyFunctions(cr.e, g.Pkg)
		for fn := range ssautilAllFunctions(cr.e) {
			if fn.Pkg != g.Pkg || strings.HasPrefix(fn.Name(), "init") || fn.Synthetic != "" || initOnly[fn] {
				continue
			}
			n++
			for _, b := range fn.Blocks {
				for _, ins := range b.Instrs {
					for _, op := range ins.Operands(nil) {
						if *op != ssa.Value(g) {
							continue
						}
						var why string
						switch x := ins.(type) {
						case *ssa.UnOp:
							if x.Op != token.MUL {
								why = "used by " + x.String()
							}
						case *ssa.IndexAddr:
							why = readOnly(x, fn)
						case *ssa.FieldAddr:
							why = readOnly(x, fn)
						case *ssa.DebugRef:
						case *ssa.Store:
							why = "stored to"
						default:
							why = "used by " + ins.String()
						}
						if why != "" {
							bad = append(bad, fn.String()+": "+why)
						}
					}
				}
			}
		}
		o.Cases = int64(n)
		if len(bad) == 0 {
			o.Status = "proved"
			o.Detail = fmt.Sprintf("%d functions scanned", n)
		} else {
			sort.Strings(bad)
			o.Status = "refuted"
			o.Model = strings.Join(bad, "\n")
			o.Replayed = true
		}
	}
}

// statelessCheck: no function of the given packages (outside the package initialisers and their
// private helpers) stores to a package-level variable, directly or through an address derived
// from one. The packages then have no state that survives a call: the outcome of Verify /
// Repair / Create is a function of their arguments and of the file system only.
func (cr *checkRun) statelessCheck(pkgs []string) {
	for _, pp := range pkgs {
		var pkg *ssa.Package
		for _, p := range cr.e.prog.AllPackages() {
			if p.Pkg.Path() == pp {
				pkg = p
			}
		}
		o := &Oblig{Fn: "stateless", Name: "stateless:" + pp[strings.LastIndex(pp, "/")+1:] + "#no-store-to-package-variables-outside-init", Kind: "stateless", preSolved: true, goal: TFalse, Solver: "SSA scan of every function of the package"}
		cr.obs = append(cr.obs, o)
		if pkg == nil {
			o.Status, o.Detail = "unknown", "package not loaded"
			continue
		}
		initOnly := initOnlyFunctions(cr.e, pkg)
		var bad []string
		n := 0
		for fn := range ssautilAllFunctions(cr.e) {
			if fn.Pkg != pkg || fn.Synthetic != "" || initOnly[fn] || (strings.HasPrefix(fn.Name(), "init") && fn.Signature.Recv() == nil) {
				continue
			}
			if pos := cr.e.prog.Fset.Position(fn.Pos()); strings.HasSuffix(pos.Filename, "_test.go") || strings.Contains(pos.Filename, "verif_contracts") {
				continue
			}
			n++
			for _, b := range fn.Blocks {
				for _, ins := range b.Instrs {
					loadedFromGlobal := func(v ssa.Value) *ssa.Global {
						if u, ok := v.(*ssa.UnOp); ok && u.Op == token.MUL {
							if g, ok := addrBase(u.X).(*ssa.Global); ok {
								return g
							}
						}
						return nil
					}
					switch st := ins.(type) {
					case *ssa.Store:
						if g, isG := addrBase(st.Addr).(*ssa.Global); isG {
							bad = append(bad, fn.String()+" stores to "+g.Name()+" at "+cr.e.prog.Fset.Position(st.Pos()).String())
						} else if root := addrRoot(st.Addr); root != nil {
							if g := loadedFromGlobal(root); g != nil {
								bad = append(bad, fn.String()+" stores into the slice/pointer held by "+g.Name()+" at "+cr.e.prog.Fset.Position(st.Pos()).String())
							}
						}
					case *ssa.MapUpdate:
						if g := loadedFromGlobal(st.Map); g != nil {
							bad = append(bad, fn.String()+" updates the map held by "+g.Name()+" at "+cr.e.prog.Fset.Position(st.Pos()).String())
						}
					}
				}
			}
		}
		o.Cases = int64(n)
		if len(bad) == 0 {
			o.Status = "proved"
			o.Detail = fmt.Sprintf("%d functions scanned", n)
		} else {
			sort.Strings(bad)
			o.Status = "refuted"
			o.Model = strings.Join(bad, "\n")
			o.Replayed = true
		}
	}
}

func ssautilAllFunctions(e *Engine) map[*ssa.Function]bool {
	if e.allFns == nil {
		e.allFns = ssautil.AllFunctions(e.prog)
	}
	return e.allFns
}

func (cr *checkRun) extraChecks(verif string) {
	cr.evalLemmaChecks()
	writers := []string{"io/ioutil.WriteFile", "os.WriteFile", "os.Create", "os.OpenFile", "os.Remove", "os.Rename", "os.Mkdir", "os.Truncate", "os.Chmod", "os.Symlink", "os.Link", "(*os.File).Write"}
	switch cr.prop {
	case "C14", "C16", "C17":
		cr.statelessCheck([]string{"github.com/akalin/gopar/par1", "github.com/akalin/gopar/par2", "github.com/akalin/gopar/rsec16", "github.com/akalin/gopar/gf2p16", "github.com/akalin/gopar/gf2"})
	}
	switch cr.prop {
	case "C02", "C14":
		// Verify modifies nothing: no write primitive and no fileIO.WriteFile is reachable from verify
		cr.callGraphCheck("no-write", []string{"github.com/akalin/gopar/par2::verify", "github.com/akalin/gopar/par1::verify"}, writers, []string{"WriteFile"}, nil)
		// Create writes only through Encoder.Write; Repair only through Decoder.Repair
		cr.callGraphCheck("writes-only-in-Encoder.Write", []string{"github.com/akalin/gopar/par2::create", "github.com/akalin/gopar/par1::create"}, writers, []string{"WriteFile"}, []string{"Encoder).Write"})
		// the real filesystem adapters are single calls of the ioutil primitives
		cr.onlyExternal("is-ioutil.WriteFile", "github.com/akalin/gopar/par2::(defaultFileIO).WriteFile", []string{"io/ioutil.WriteFile"})
		cr.onlyExternal("is-ioutil.WriteFile", "github.com/akalin/gopar/par1::(defaultFileIO).WriteFile", []string{"io/ioutil.WriteFile"})
		cr.onlyExternal("is-ioutil.ReadFile", "github.com/akalin/gopar/par2::(defaultFileIO).ReadFile", []string{"io/ioutil.ReadFile"})
		cr.onlyExternal("is-ioutil.ReadFile", "github.com/akalin/gopar/par1::(defaultFileIO).ReadFile", []string{"io/ioutil.ReadFile"})
		cr.callGraphCheck("writes-only-in-Decoder.Repair", []string{"github.com/akalin/gopar/par2::repair", "github.com/akalin/gopar/par1::repair"}, writers, []string{"WriteFile"}, []string{"Decoder).Repair"})
	}
}

// evalLemmaChecks decides `kind eval` / `kind exhaust` lemmas by running the
// compiled spec functions over the whole (finite) domain.
func (cr *checkRun) evalLemmaChecks() {
	byPkg := map[string][]*Lemma{}
	for _, l := range cr.e.contracts.Lemmas {
		if !hasProp(l.Props, cr.prop) || l.Kind == "smt" {
			continue
		}
		if l.Tier == "thorough" && cr.tier != "thorough" {
			continue
		}
		byPkg[l.Pkg] = append(byPkg[l.Pkg], l)
	}
	var pkgs []string
	for p := range byPkg {
		pkgs = append(pkgs, p)
	}
	sort.Strings(pkgs)
	var total int64
	for _, p := range pkgs {
		to := 120 * time.Second
		if cr.tier == "thorough" {
			to = 1800 * time.Second
		}
		obs := cr.e.evalLemmas(p, byPkg[p], to)
		for _, o := range obs {
			total += o.Cases
			cr.lemmaN++
		}
		cr.obs = append(cr.obs, obs...)
	}
	if total > 0 {
		cr.extraCov["exhaustively_evaluated_cases"] = total
	}
}

// initOnlyFunctions: unexported functions of the package that are never used as values and
// whose every call site is in a package initialiser or in another such function.
func initOnlyFunctions(e *Engine, pkg *ssa.Package) map[*ssa.Function]bool {
	callers := map[*ssa.Function][]*ssa.Function{}
	valueUse := map[*ssa.Function]bool{}
	var all []*ssa.Function
	for fn := range ssautilAllFunctions(e) {
		if fn.Pkg != pkg {
			continue
		}
		all = append(all, fn)
		for _, b := range fn.Blocks {
			for _, ins := range b.Instrs {
				skipFirst := false
				if _, isDbg := ins.(*ssa.DebugRef); isDbg {
					continue
				}
				if ci, ok := ins.(ssa.CallInstruction); ok {
					if callee, ok := ci.Common().Value.(*ssa.Function); ok {
						callers[callee] = append(callers[callee], fn)
						skipFirst = true // operand 0 of a static call is the callee itself
					}
				}
				for k, op := range ins.Operands(nil) {
					if f, ok := (*op).(*ssa.Function); ok && !(skipFirst && k == 0) {
						valueUse[f] = true
					}
				}
			}
		}
	}
	if os.Getenv("GOCV_DBG") != "" {
		for _, fn := range all {
			fmt.Println("INITONLY?", fn.String(), len(callers[fn]), valueUse[fn], fn.Object() == nil)
		}
	}
	out := map[*ssa.Function]bool{}
	for changed := true; changed; {
		changed = false
		for _, fn := range all {
			if out[fn] || valueUse[fn] || fn.Object() == nil || fn.Object().Exported() || len(callers[fn]) == 0 || fn.Signature.Recv() != nil {
				continue
			}
			ok := true
			for _, c := range callers[fn] {
				if !(strings.HasPrefix(c.Name(), "init") && c.Signature.Recv() == nil && c.Signature.Params().Len() == 0) && !out[c] {
					ok = false
				}
			}
			if ok {
				out[fn] = true
				changed = true
			}
		}
	}
	return out
}
