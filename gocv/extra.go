package main

import (
	"sort"
	"time"
)

// extraChecks runs property-specific non-SMT checks (exhaustive evaluation of
// closed facts, assembly obligations, call-graph obligations).
func (cr *checkRun) extraChecks(verif string) {
	cr.evalLemmaChecks()
}

// evalLemmaChecks decides `kind eval` / `kind exhaust` lemmas by running the
// compiled spec functions over the whole (finite) domain.
func (cr *checkRun) evalLemmaChecks() {
	byPkg := map[string][]*Lemma{}
	for _, l := range cr.e.contracts.Lemmas {
		if !hasProp(l.Props, cr.prop) || l.Kind == "smt" {
			continue
		}
		if l.Tier == "thorough" && cr.tier != "thorough" {
			continue
		}
		byPkg[l.Pkg] = append(byPkg[l.Pkg], l)
	}
	var pkgs []string
	for p := range byPkg {
		pkgs = append(pkgs, p)
	}
	sort.Strings(pkgs)
	var total int64
	for _, p := range pkgs {
		to := 120 * time.Second
		if cr.tier == "thorough" {
			to = 1800 * time.Second
		}
		obs := cr.e.evalLemmas(p, byPkg[p], to)
		for _, o := range obs {
			total += o.Cases
			cr.lemmaN++
		}
		cr.obs = append(cr.obs, obs...)
	}
	if total > 0 {
		cr.extraCov["exhaustively_evaluated_cases"] = total
	}
}
