package main

import (
	"os"
	"golang.org/x/tools/go/ssa/ssautil"
	"fmt"
	"strings"
	"golang.org/x/tools/go/ssa"
	"go/token"
	"sort"
	"time"
)

// extraChecks runs property-specific non-SMT checks (exhaustive evaluation of
// closed facts, assembly obligations, call-graph obligations).
// preSolveChecks adds obligations that go through the SMT portfolio but are not
// generated from Go SSA (assembly kernels).
func (cr *checkRun) preSolveChecks() {
	if cr.prop == "C09" {
		cr.asmChecks()
	}
	cr.frozenChecks()
}

// frozenChecks: the write-once discipline of `frozen` globals is a static obligation: outside
// the package initialisers a frozen global is only loaded, indexed for loading, or passed (by
// address of an element) to a function under contract, whose frame then accounts for it.
func (cr *checkRun) frozenChecks() {
	pkgs := map[string]bool{}
	for _, fr := range cr.fns {
		// Func is "<pkg>.<relname>"
		if i := strings.Index(fr.Func, "."); i > 0 {
			pkgs[fr.Func[:i]] = true
		}
	}
	var globals []*ssa.Global
	for g := range cr.e.globalIDs {
		if g.Pkg != nil && pkgs[g.Pkg.Pkg.Name()] && cr.e.contracts.Frozen[contractKey(g.Pkg.Pkg.Path(), g.Name())] {
			globals = append(globals, g)
		}
	}
	sort.Slice(globals, func(i, j int) bool { return globals[i].String() < globals[j].String() })
	for _, g := range globals {
		o := &Oblig{Fn: "frozen", Name: "frozen:" + g.Pkg.Pkg.Name() + "." + g.Name() + "#written-only-by-init", Kind: "frozen", preSolved: true, goal: TFalse, Solver: "SSA scan of every function of the package"}
		cr.obs = append(cr.obs, o)
		var bad []string
		var readOnly func(v ssa.Value, fn *ssa.Function) string
		readOnly = func(v ssa.Value, fn *ssa.Function) string {
			refs := v.Referrers()
			if refs == nil {
				return ""
			}
			for _, r := range *refs {
				switch x := r.(type) {
				case *ssa.UnOp:
					if x.Op != token.MUL {
						return "used by " + x.String()
					}
				case *ssa.IndexAddr:
					if x.X != v {
						return "used as index"
					}
					if why := readOnly(x, fn); why != "" {
						return why
					}
				case *ssa.FieldAddr:
					if why := readOnly(x, fn); why != "" {
						return why
					}
				case *ssa.DebugRef:
				case ssa.CallInstruction:
					callee, _ := x.Common().Value.(*ssa.Function)
					if callee == nil || (cr.e.contractFor(callee) == nil && !cr.e.isSpecFn(callee)) {
						return "passed to a function without contract: " + x.String()
					}
				case *ssa.Store:
					return "stored to at " + cr.e.prog.Fset.Position(x.Pos()).String()
				default:
					return "used by " + r.String()
				}
			}
			return ""
		}
		n := 0
		initOnly := initOnlyFunctions(cr.e, g.Pkg)
		for fn := range ssautilAllFunctions(cr.e) {
			if fn.Pkg != g.Pkg || strings.HasPrefix(fn.Name(), "init") || fn.Synthetic != "" || initOnly[fn] {
				continue
			}
			n++
			for _, b := range fn.Blocks {
				for _, ins := range b.Instrs {
					for _, op := range ins.Operands(nil) {
						if *op != ssa.Value(g) {
							continue
						}
						var why string
						switch x := ins.(type) {
						case *ssa.UnOp:
							if x.Op != token.MUL {
								why = "used by " + x.String()
							}
						case *ssa.IndexAddr:
							why = readOnly(x, fn)
						case *ssa.FieldAddr:
							why = readOnly(x, fn)
						case *ssa.DebugRef:
						case *ssa.Store:
							why = "stored to"
						default:
							why = "used by " + ins.String()
						}
						if why != "" {
							bad = append(bad, fn.String()+": "+why)
						}
					}
				}
			}
		}
		o.Cases = int64(n)
		if len(bad) == 0 {
			o.Status = "proved"
			o.Detail = fmt.Sprintf("%d functions scanned", n)
		} else {
			sort.Strings(bad)
			o.Status = "refuted"
			o.Model = strings.Join(bad, "\n")
			o.Replayed = true
		}
	}
}

// statelessCheck: no function of the given packages (outside the package initialisers and their
// private helpers) stores to a package-level variable, directly or through an address derived
// from one. The packages then have no state that survives a call: the outcome of Verify /
// Repair / Create is a function of their arguments and of the file system only.
func (cr *checkRun) statelessCheck(pkgs []string) {
	for _, pp := range pkgs {
		var pkg *ssa.Package
		for _, p := range cr.e.prog.AllPackages() {
			if p.Pkg.Path() == pp {
				pkg = p
			}
		}
		o := &Oblig{Fn: "stateless", Name: "stateless:" + pp[strings.LastIndex(pp, "/")+1:] + "#no-store-to-package-variables-outside-init", Kind: "stateless", preSolved: true, goal: TFalse, Solver: "SSA scan of every function of the package"}
		cr.obs = append(cr.obs, o)
		if pkg == nil {
			o.Status, o.Detail = "unknown", "package not loaded"
			continue
		}
		initOnly := initOnlyFunctions(cr.e, pkg)
		var bad []string
		n := 0
		for fn := range ssautilAllFunctions(cr.e) {
			if fn.Pkg != pkg || fn.Synthetic != "" || initOnly[fn] || (strings.HasPrefix(fn.Name(), "init") && fn.Signature.Recv() == nil) {
				continue
			}
			if pos := cr.e.prog.Fset.Position(fn.Pos()); strings.HasSuffix(pos.Filename, "_test.go") || strings.Contains(pos.Filename, "verif_contracts") {
				continue
			}
			n++
			for _, b := range fn.Blocks {
				for _, ins := range b.Instrs {
					loadedFromGlobal := func(v ssa.Value) *ssa.Global {
						if u, ok := v.(*ssa.UnOp); ok && u.Op == token.MUL {
							if g, ok := addrBase(u.X).(*ssa.Global); ok {
								return g
							}
						}
						return nil
					}
					switch st := ins.(type) {
					case *ssa.Store:
						if g, isG := addrBase(st.Addr).(*ssa.Global); isG {
							bad = append(bad, fn.String()+" stores to "+g.Name()+" at "+cr.e.prog.Fset.Position(st.Pos()).String())
						} else if root := addrRoot(st.Addr); root != nil {
							if g := loadedFromGlobal(root); g != nil {
								bad = append(bad, fn.String()+" stores into the slice/pointer held by "+g.Name()+" at "+cr.e.prog.Fset.Position(st.Pos()).String())
							}
						}
					case *ssa.MapUpdate:
						if g := loadedFromGlobal(st.Map); g != nil {
							bad = append(bad, fn.String()+" updates the map held by "+g.Name()+" at "+cr.e.prog.Fset.Position(st.Pos()).String())
						}
					}
				}
			}
		}
		o.Cases = int64(n)
		if len(bad) == 0 {
			o.Status = "proved"
			o.Detail = fmt.Sprintf("%d functions scanned", n)
		} else {
			sort.Strings(bad)
			o.Status = "refuted"
			o.Model = strings.Join(bad, "\n")
			o.Replayed = true
		}
	}
}

func ssautilAllFunctions(e *Engine) map[*ssa.Function]bool {
	if e.allFns == nil {
		e.allFns = ssautil.AllFunctions(e.prog)
	}
	return e.allFns
}

func (cr *checkRun) extraChecks(verif string) {
	cr.evalLemmaChecks()
	cr.boundedStandIns()
	writers := []string{"io/ioutil.WriteFile", "os.WriteFile", "os.Create", "os.OpenFile", "os.Remove", "os.Rename", "os.Mkdir", "os.Truncate", "os.Chmod", "os.Symlink", "os.Link", "(*os.File).Write"}
	switch cr.prop {
	case "C14", "C16", "C17":
		cr.statelessCheck([]string{"github.com/akalin/gopar/par1", "github.com/akalin/gopar/par2", "github.com/akalin/gopar/rsec16", "github.com/akalin/gopar/gf2p16", "github.com/akalin/gopar/gf2"})
	}
	if cr.prop == "C17" {
		cr.orderCheck([]string{"github.com/akalin/gopar/par2::create", "github.com/akalin/gopar/par1::create"})
	}
	switch cr.prop {
	case "C02", "C14":
		// Verify modifies nothing: no write primitive and no fileIO.WriteFile is reachable from verify
		cr.callGraphCheck("no-write", []string{"github.com/akalin/gopar/par2::verify", "github.com/akalin/gopar/par1::verify"}, writers, []string{"WriteFile"}, nil)
		// Create writes only through Encoder.Write; Repair only through Decoder.Repair
		cr.callGraphCheck("writes-only-in-Encoder.Write", []string{"github.com/akalin/gopar/par2::create", "github.com/akalin/gopar/par1::create"}, writers, []string{"WriteFile"}, []string{"Encoder).Write"})
		// the real filesystem adapters are single calls of the ioutil primitives
		cr.onlyExternal("is-ioutil.WriteFile", "github.com/akalin/gopar/par2::(defaultFileIO).WriteFile", []string{"io/ioutil.WriteFile"})
		cr.onlyExternal("is-ioutil.WriteFile", "github.com/akalin/gopar/par1::(defaultFileIO).WriteFile", []string{"io/ioutil.WriteFile"})
		cr.onlyExternal("is-ioutil.ReadFile", "github.com/akalin/gopar/par2::(defaultFileIO).ReadFile", []string{"io/ioutil.ReadFile"})
		cr.onlyExternal("is-ioutil.ReadFile", "github.com/akalin/gopar/par1::(defaultFileIO).ReadFile", []string{"io/ioutil.ReadFile"})
		cr.callGraphCheck("writes-only-in-Decoder.Repair", []string{"github.com/akalin/gopar/par2::repair", "github.com/akalin/gopar/par1::repair"}, writers, []string{"WriteFile"}, []string{"Decoder).Repair"})
	}
}

// evalLemmaChecks decides `kind eval` / `kind exhaust` lemmas by running the
// compiled spec functions over the whole (finite) domain.
func (cr *checkRun) evalLemmaChecks() {
	byPkg := map[string][]*Lemma{}
	for _, l := range cr.e.contracts.Lemmas {
		if !hasProp(l.Props, cr.prop) || l.Kind == "smt" {
			continue
		}
		if l.Tier == "thorough" && cr.tier != "thorough" {
			continue
		}
		byPkg[l.Pkg] = append(byPkg[l.Pkg], l)
	}
	var pkgs []string
	for p := range byPkg {
		pkgs = append(pkgs, p)
	}
	sort.Strings(pkgs)
	var total int64
	for _, p := range pkgs {
		to := 120 * time.Second
		if cr.tier == "thorough" {
			to = 1800 * time.Second
		}
		obs := cr.e.evalLemmas(p, byPkg[p], to)
		for _, o := range obs {
			total += o.Cases
			cr.lemmaN++
		}
		cr.obs = append(cr.obs, obs...)
	}
	if total > 0 {
		cr.extraCov["exhaustively_evaluated_cases"] = total
	}
}

// initOnlyFunctions: unexported functions of the package that are never used as values and
// whose every call site is in a package initialiser or in another such function.
func initOnlyFunctions(e *Engine, pkg *ssa.Package) map[*ssa.Function]bool {
	callers := map[*ssa.Function][]*ssa.Function{}
	valueUse := map[*ssa.Function]bool{}
	var all []*ssa.Function
	for fn := range ssautilAllFunctions(e) {
		if fn.Pkg != pkg {
			continue
		}
		all = append(all, fn)
		for _, b := range fn.Blocks {
			for _, ins := range b.Instrs {
				skipFirst := false
				if _, isDbg := ins.(*ssa.DebugRef); isDbg {
					continue
				}
				if ci, ok := ins.(ssa.CallInstruction); ok {
					if callee, ok := ci.Common().Value.(*ssa.Function); ok {
						callers[callee] = append(callers[callee], fn)
						skipFirst = true // operand 0 of a static call is the callee itself
					}
				}
				for k, op := range ins.Operands(nil) {
					if f, ok := (*op).(*ssa.Function); ok && !(skipFirst && k == 0) {
						valueUse[f] = true
					}
				}
			}
		}
	}
	if os.Getenv("GOCV_DBG") != "" {
		for _, fn := range all {
			fmt.Println("INITONLY?", fn.String(), len(callers[fn]), valueUse[fn], fn.Object() == nil)
		}
	}
	out := map[*ssa.Function]bool{}
	for changed := true; changed; {
		changed = false
		for _, fn := range all {
			if out[fn] || valueUse[fn] || fn.Object() == nil || fn.Object().Exported() || len(callers[fn]) == 0 || fn.Signature.Recv() != nil {
				continue
			}
			ok := true
			for _, c := range callers[fn] {
				if !(strings.HasPrefix(c.Name(), "init") && c.Signature.Recv() == nil && c.Signature.Params().Len() == 0) && !out[c] {
					ok = false
				}
			}
			if ok {
				out[fn] = true
				changed = true
			}
		}
	}
	return out
}

// boundedStandIns: BOUNDED checks, labelled as such and never counted as proved, for the parts of
// C07 / C11 that no contract within reach decides (exact reconstruction, inverse correctness), and
// the executable grid for C12's functional contract. They run the real code through `go test
// -overlay`; a failure is a violation with a real failing input.
func (cr *checkRun) boundedStandIns() {
	run := func(label string, res replayResult) {
		cr.bounded = append(cr.bounded, label)
		if res.failed {
			cr.extraViol = append(cr.extraViol, violation{name: "bounded:" + label, reason: "bounded differential test failed on the real code", detail: res.log, input: true})
		} else if !res.ran || !strings.Contains(res.log, "GOCV-REPLAY-OK") {
			cr.undecided = append(cr.undecided, "UNDECIDED bounded:"+label+": the bounded test did not run to completion")
		}
	}
	switch cr.prop {
	case "C11":
		run("gf2p16 Matrix: row operations, Times, RowReduceForInverse (M*result == N, zero pivots forced) on random matrices up to 5x6 / 4x4+4x6, 30 trials per shape; Inverse on 1..5 square", cr.replayMatrix())
	case "C12":
		run("rsec16 applyMatrixParallelData/ParallelOut/Single vs row-by-column product: input rows {1,2,3,8,9,12} x output rows {1,2,3,5} x lengths {2..1000, 14 values} x goroutines 1..9", cr.replayApplyMatrix())
	case "C07":
		run("rsec16 Coder: every erasure pattern of data and parity shards for Cauchy codes (d,p) in {(1,1),(2,2),(3,2),(4,3),(5,3)} and PAR2-Vandermonde codes up to (5,3): nil error => restored shards equal the originals and supplied shards untouched; too few parity => NotEnoughParityShardsError; shard lengths {2,4,18,34}, goroutines {1,3}", cr.replayCoder())
	}
}

func (cr *checkRun) replayCoder() replayResult {
	src := `//go:build verif

package rsec16

import (
	"fmt"
	"math/rand"
	"testing"
)

func TestGocvBoundedCoder(t *testing.T) {
	rng := rand.New(rand.NewSource(1))
	type mk func(d, p, g int) (Coder, error)
	coders := []struct {
		name string
		mk   mk
	}{{"Cauchy", NewCoderCauchy}, {"PAR2Vandermonde", NewCoderPAR2Vandermonde}}
	shapes := [][2]int{{1, 1}, {2, 2}, {3, 2}, {4, 3}, {5, 3}}
	for _, cd := range coders {
		for _, sh := range shapes {
			d, p := sh[0], sh[1]
			for _, n := range []int{2, 4, 18, 34} {
				for _, g := range []int{1, 3} {
					c, err := cd.mk(d, p, g)
					if err != nil {
						fmt.Printf("GOCV-REPLAY-FAIL %s(%d,%d): constructor error %v\n", cd.name, d, p, err)
						t.Fail()
						return
					}
					orig := make([][]byte, d)
					for i := range orig {
						orig[i] = make([]byte, n)
						rng.Read(orig[i])
					}
					parity := c.GenerateParity(orig)
					for mask := 0; mask < 1<<uint(d+p); mask++ {
						data := make([][]byte, d)
						par := make([][]byte, p)
						missing, have := 0, 0
						for i := 0; i < d; i++ {
							if mask&(1<<uint(i)) == 0 {
								data[i] = append([]byte{}, orig[i]...)
							} else {
								missing++
							}
						}
						for i := 0; i < p; i++ {
							if mask&(1<<uint(d+i)) == 0 {
								par[i] = append([]byte{}, parity[i]...)
								have++
							}
						}
						err := c.ReconstructData(data, par)
						desc := fmt.Sprintf("%s code %d+%d, shard length %d, goroutines %d, erasure mask %#b", cd.name, d, p, n, g, mask)
						if missing > have {
							if _, ok := err.(NotEnoughParityShardsError); !ok {
								fmt.Printf("GOCV-REPLAY-FAIL %s: %d data shards missing, %d parity available, error is %v, want NotEnoughParityShardsError\n", desc, missing, have, err)
								t.Fail()
								return
							}
							continue
						}
						if err != nil {
							if cd.name == "Cauchy" {
								fmt.Printf("GOCV-REPLAY-FAIL %s: Cauchy reconstruction failed: %v\n", desc, err)
								t.Fail()
								return
							}
							continue // PAR2 matrix may be singular: an error is allowed
						}
						for i := 0; i < d; i++ {
							if string(data[i]) != string(orig[i]) {
								fmt.Printf("GOCV-REPLAY-FAIL %s: nil error but data shard %d differs from the original\n", desc, i)
								t.Fail()
								return
							}
						}
						for i := 0; i < p; i++ {
							if par[i] != nil && string(par[i]) != string(parity[i]) {
								fmt.Printf("GOCV-REPLAY-FAIL %s: parity shard %d was modified\n", desc, i)
								t.Fail()
								return
							}
						}
					}
				}
			}
		}
	}
	fmt.Println("GOCV-REPLAY-OK Coder: every erasure pattern of the bounded family reconstructs exactly or reports the permitted error")
}
`
	return cr.injected("github.com/akalin/gopar/rsec16", "zz_gocv_bounded_coder_test.go", src, "TestGocvBoundedCoder")
}
