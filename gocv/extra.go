package main

import (
	"sort"
	"time"
)

// extraChecks runs property-specific non-SMT checks (exhaustive evaluation of
// closed facts, assembly obligations, call-graph obligations).
// preSolveChecks adds obligations that go through the SMT portfolio but are not
// generated from Go SSA (assembly kernels).
func (cr *checkRun) preSolveChecks() {
	if cr.prop == "C09" {
		cr.asmChecks()
	}
}

func (cr *checkRun) extraChecks(verif string) {
	cr.evalLemmaChecks()
	writers := []string{"io/ioutil.WriteFile", "os.WriteFile", "os.Create", "os.OpenFile", "os.Remove", "os.Rename", "os.Mkdir", "os.Truncate", "os.Chmod", "os.Symlink", "os.Link", "(*os.File).Write"}
	switch cr.prop {
	case "C02", "C14":
		// Verify modifies nothing: no write primitive and no fileIO.WriteFile is reachable from verify
		cr.callGraphCheck("no-write", []string{"github.com/akalin/gopar/par2::verify", "github.com/akalin/gopar/par1::verify"}, writers, []string{"WriteFile"}, nil)
		// Create writes only through Encoder.Write; Repair only through Decoder.Repair
		cr.callGraphCheck("writes-only-in-Encoder.Write", []string{"github.com/akalin/gopar/par2::create", "github.com/akalin/gopar/par1::create"}, writers, []string{"WriteFile"}, []string{"Encoder).Write"})
		// the real filesystem adapters are single calls of the ioutil primitives
		cr.onlyExternal("is-ioutil.WriteFile", "github.com/akalin/gopar/par2::(defaultFileIO).WriteFile", []string{"io/ioutil.WriteFile"})
		cr.onlyExternal("is-ioutil.WriteFile", "github.com/akalin/gopar/par1::(defaultFileIO).WriteFile", []string{"io/ioutil.WriteFile"})
		cr.onlyExternal("is-ioutil.ReadFile", "github.com/akalin/gopar/par2::(defaultFileIO).ReadFile", []string{"io/ioutil.ReadFile"})
		cr.onlyExternal("is-ioutil.ReadFile", "github.com/akalin/gopar/par1::(defaultFileIO).ReadFile", []string{"io/ioutil.ReadFile"})
		cr.callGraphCheck("writes-only-in-Decoder.Repair", []string{"github.com/akalin/gopar/par2::repair", "github.com/akalin/gopar/par1::repair"}, writers, []string{"WriteFile"}, []string{"Decoder).Repair"})
	}
}

// evalLemmaChecks decides `kind eval` / `kind exhaust` lemmas by running the
// compiled spec functions over the whole (finite) domain.
func (cr *checkRun) evalLemmaChecks() {
	byPkg := map[string][]*Lemma{}
	for _, l := range cr.e.contracts.Lemmas {
		if !hasProp(l.Props, cr.prop) || l.Kind == "smt" {
			continue
		}
		if l.Tier == "thorough" && cr.tier != "thorough" {
			continue
		}
		byPkg[l.Pkg] = append(byPkg[l.Pkg], l)
	}
	var pkgs []string
	for p := range byPkg {
		pkgs = append(pkgs, p)
	}
	sort.Strings(pkgs)
	var total int64
	for _, p := range pkgs {
		to := 120 * time.Second
		if cr.tier == "thorough" {
			to = 1800 * time.Second
		}
		obs := cr.e.evalLemmas(p, byPkg[p], to)
		for _, o := range obs {
			total += o.Cases
			cr.lemmaN++
		}
		cr.obs = append(cr.obs, obs...)
	}
	if total > 0 {
		cr.extraCov["exhaustively_evaluated_cases"] = total
	}
}
