package main

// extraChecks runs property-specific non-SMT checks (exhaustive evaluation of
// closed facts, assembly obligations, call-graph obligations).
func (cr *checkRun) extraChecks(verif string) {
}
