package main

import (
	"fmt"
	"go/ast"
	"go/constant"
	"go/parser"
	"go/token"
	"go/types"
	"math/big"
	"strconv"
	"strings"

	"golang.org/x/tools/go/ssa"
)

// sval is a typed spec-level value.
type sval struct {
	v       Value
	t       types.Type // nil for untyped constants
	isConst bool
	c       *big.Int
}

type binding struct {
	v Value
	t types.Type
}

// Env is the evaluation context of a spec expression.
type Env struct {
	fc      *FnCtx
	st      *State
	old     *State
	atBlk   *ssa.BasicBlock // name resolution point
	header  *ssa.BasicBlock // loop header whose phis are being evaluated
	viaPred *ssa.BasicBlock // edge along which header phis take their values (nil = the phis themselves)
	wholeBlk bool           // resolve using all instructions of atBlk (return point)
	binds   map[string]binding
	callee  bool // names resolve only through binds + package scope
	pkg     *types.Package
	qn      *int
	oldBinds map[string]binding
	headEnv *Env
	pending []Term // type facts about quantified terms (not assumed globally)
	upTo    ssa.Instruction // in atBlk, only instructions before this one are visible
	skolemize bool           // replace positive top-level foralls by fresh constants (goal side only)
	pos       bool
	skolems   []skolem
	evalPos   bool
	skRoot    *Env
}

type skolem struct {
	name string // source-level bound variable
	t    Term
}

func (fc *FnCtx) pkgTypes() *types.Package {
	if fc.pkgOverride != nil {
		return fc.pkgOverride
	}
	fn := fc.fn
	for fn.Pkg == nil && fn.Parent() != nil {
		fn = fn.Parent()
	}
	if fn.Pkg != nil {
		return fn.Pkg.Pkg
	}
	return nil
}

func (fc *FnCtx) newEnv(st *State) *Env {
	n := 0
	return &Env{fc: fc, st: st, old: fc.entry, binds: map[string]binding{}, pkg: fc.pkgTypes(), qn: &n}
}

func (fc *FnCtx) entryEnv() *Env {
	e := fc.newEnv(fc.entry)
	e.atBlk = fc.fn.Blocks[0]
	e.callee = true // only params (and, for closures, captured variables at entry)
	for n, v := range fc.params {
		e.binds[n] = binding{v, fc.paramT[n]}
	}
	for n, b := range fc.logical {
		e.binds[n] = b
	}
	if fc.fn != nil {
		for _, fv := range fc.fn.FreeVars {
			p, ok := fc.vals[fv]
			pt, isPtr := fv.Type().Underlying().(*types.Pointer)
			if ok && isPtr && p.K == KPtr {
				if _, clash := e.binds[fv.Name()]; !clash {
					e.binds[fv.Name()] = binding{fc.load(fc.entry, pt.Elem(), p.Obj(), p.Off()), pt.Elem()}
				}
				e.binds["&"+fv.Name()] = binding{p, fv.Type()}
			}
		}
	}
	return e
}

func (fc *FnCtx) blockEnv(b *ssa.BasicBlock, st *State) *Env {
	e := fc.newEnv(st)
	e.atBlk = b
	e.header = b
	return e
}

func (fc *FnCtx) edgeEnv(h, pred *ssa.BasicBlock, st *State) *Env {
	e := fc.newEnv(st)
	e.atBlk = pred
	e.header = h
	e.viaPred = pred
	return e
}

func (fc *FnCtx) returnEnv(r *ssa.Return, results []Value) *Env {
	e := fc.newEnv(fc.cur)
	e.atBlk = r.Block()
	e.wholeBlk = true
	sig := fc.fn.Signature
	for i, v := range results {
		rt := sig.Results().At(i).Type()
		e.binds[fmt.Sprintf("result%d", i)] = binding{v, rt}
		if n := sig.Results().At(i).Name(); n != "" && n != "_" {
			e.binds[n] = binding{v, rt}
		}
	}
	if len(results) == 1 {
		e.binds["result"] = binding{results[0], sig.Results().At(0).Type()}
	}
	// parameters in ensures always denote entry values
	for n, v := range fc.params {
		if _, clash := e.binds[n]; !clash {
			e.binds[n] = binding{v, fc.paramT[n]}
		}
	}
	return e
}

func (e *Env) phiValue(phi *ssa.Phi) Value {
	if e.viaPred != nil && e.header == phi.Block() {
		for i, p := range phi.Block().Preds {
			if p == e.viaPred {
				return e.fc.val(phi.Edges[i])
			}
		}
	}
	return e.fc.val(phi)
}

func (e *Env) sub() *Env {
	n := *e
	n.binds = map[string]binding{}
	for k, v := range e.binds {
		n.binds[k] = v
	}
	return &n
}

// resolve finds the value of a source-level name.
func (e *Env) resolve(name string) (binding, bool) {
	if b, ok := e.binds[name]; ok {
		return b, true
	}
	fc := e.fc
	if !e.callee {
		// 0. logical variables of the contract (universally quantified over the whole function)
		if b, ok := fc.logical[name]; ok {
			return b, true
		}
		// 0b. `rangeindex` in a counting loop `for i := 0; i < n; i++` that is not a range loop:
		// the index of the last completed iteration is the counter minus one (so that rewriting a
		// range loop as an index loop keeps its invariants meaningful)
		if name == "rangeindex" && e.header != nil && e.header.Comment != "rangeindex.loop" {
			var cnt *ssa.Phi
			n := 0
			for _, ins := range e.header.Instrs {
				phi, ok := ins.(*ssa.Phi)
				if !ok {
					break
				}
				if bt, ok := phi.Type().Underlying().(*types.Basic); ok && bt.Info()&types.IsInteger != 0 && len(phi.Edges) == 2 {
					isCounter := false
					for _, ed := range phi.Edges {
						if add, ok := ed.(*ssa.BinOp); ok && add.Op == token.ADD && add.X == ssa.Value(phi) {
							if c, ok := add.Y.(*ssa.Const); ok && c.Int64() == 1 {
								isCounter = true
							}
						}
					}
					if isCounter {
						cnt = phi
						n++
					}
				}
			}
			if n == 1 {
				v := e.phiValue(cnt)
				if v.K == KLeaf && v.T.Sort == SInt {
					return binding{Leaf(Sub(v.T, IntLit(1))), specIntType}, true
				}
			}
		}
		// 1. phi of the header
		if e.header != nil {
			var found *ssa.Phi
			for _, ins := range e.header.Instrs {
				phi, ok := ins.(*ssa.Phi)
				if !ok {
					break
				}
				if phi.Comment == name {
					found = phi
				}
			}
			if found != nil {
				return binding{e.phiValue(found), found.Type()}, true
			}
		}
		// 1b. address-taken local (unique by name): its current value is in its cell
		{
			var found *ssa.Alloc
			n := 0
			for _, b := range fc.fn.Blocks {
				for _, ins := range b.Instrs {
					if a, ok := ins.(*ssa.Alloc); ok && a.Comment == name {
						n++
						found = a
					}
				}
			}
			if n == 1 {
				if p, ok := fc.vals[found]; ok && p.K == KPtr {
					et := found.Type().Underlying().(*types.Pointer).Elem()
					// written once and never again: its value is the stored value, whatever the heap
					if fc.readOnlyLocal(found) && e.atBlk != nil {
						for _, r := range *found.Referrers() {
							if st, ok := r.(*ssa.Store); ok && st.Addr == ssa.Value(found) && st.Block() != e.atBlk && st.Block().Dominates(e.atBlk) {
								if sv, ok := fc.vals[st.Val]; ok && sv.K != KOpaque {
									return binding{sv, et}, true
								}
							}
						}
					}
					return binding{e.loadT(et, p.Obj(), p.Off()), et}, true
				}
			}
		}
		// 2. dominator walk
		start := e.atBlk
		if e.header != nil {
			start = e.header
		}
		first := true
		for b := start; b != nil; b = b.Idom() {
			instrs := b.Instrs
			if first && e.header != nil {
				instrs = nil // invariants hold at the top of the header
				if e.viaPred != nil && false {
					instrs = nil
				}
			}
			if first && e.header == nil && !e.wholeBlk {
				instrs = nil
			}
			if first && e.upTo != nil {
				for k, in := range instrs {
					if in == e.upTo {
						instrs = instrs[:k]
						break
					}
				}
			}
			first = false
			for i := len(instrs) - 1; i >= 0; i-- {
				switch x := instrs[i].(type) {
				case *ssa.DebugRef:
					id, ok := x.Expr.(*ast.Ident)
					if !ok || id.Name != name {
						continue
					}
					if _, isGlobal := x.X.(*ssa.Global); isGlobal {
						continue
					}
					if x.IsAddr {
						p := fc.val(x.X)
						pt, ok := x.X.Type().Underlying().(*types.Pointer)
						if ok && p.K == KPtr {
							return binding{e.loadT(pt.Elem(), p.Obj(), p.Off()), pt.Elem()}, true
						}
						continue
					}
					return binding{fc.val(x.X), x.X.Type()}, true
				case *ssa.Phi:
					if x.Comment == name {
						return binding{fc.val(x), x.Type()}, true
					}
				}
			}
		}
		// 3. parameters
		if v, ok := fc.params[name]; ok {
			return binding{v, fc.paramT[name]}, true
		}
		// 4. address-taken locals
		for _, b := range fc.fn.Blocks {
			for _, ins := range b.Instrs {
				if a, ok := ins.(*ssa.Alloc); ok && a.Comment == name {
					if p, ok := fc.vals[a]; ok && p.K == KPtr {
						et := a.Type().Underlying().(*types.Pointer).Elem()
						return binding{e.loadT(et, p.Obj(), p.Off()), et}, true
					}
				}
			}
		}
		// 5. free variables
		for _, fv := range fc.fn.FreeVars {
			if fv.Name() == name {
				p := fc.val(fv)
				et := fv.Type().Underlying().(*types.Pointer).Elem()
				return binding{e.loadT(et, p.Obj(), p.Off()), et}, true
			}
		}
	}
	// ghost
	if g, ok := e.st.ghost[name]; ok {
		return binding{Leaf(g), ghostType(fc.eng.ghosts[name].Type)}, true
	}
	// package scope
	if e.pkg != nil {
		obj := e.pkg.Scope().Lookup(name)
		switch o := obj.(type) {
		case *types.Const:
			return e.constBinding(o)
		case *types.Var:
			sp := fc.eng.spkgs[e.pkg.Path()]
			if sp != nil {
				if g, ok := sp.Members[name].(*ssa.Global); ok {
					et := g.Type().Underlying().(*types.Pointer).Elem()
					id := IntLit(fc.eng.globalIDs[g])
					// large arrays are addressed, not loaded: represent as pointer-to-array marker
					if arr, isArr := et.Underlying().(*types.Array); isArr {
						if _, small := isSmallByteArray(et); !small {
							_ = arr
							return binding{PtrV(id, IntLit(0)), g.Type()}, true
						}
					}
					return binding{e.loadT(et, id, IntLit(0)), et}, true
				}
			}
		}
	}
	return binding{}, false
}

func ghostType(t string) types.Type {
	switch t {
	case "bool":
		return types.Typ[types.Bool]
	case "str":
		return types.Typ[types.String]
	}
	return specIntType // ghost counters are mathematical integers
}

func (e *Env) constBinding(o *types.Const) (binding, bool) {
	fc := e.fc
	t := o.Type()
	v := o.Val()
	if b, ok := t.Underlying().(*types.Basic); ok {
		switch {
		case b.Info()&types.IsInteger != 0:
			n, _ := new(big.Int).SetString(constant.ToInt(v).ExactString(), 10)
			bits, _, _ := intInfo(t)
			if bits == 0 {
				bits = 64
			}
			if intSort(bits, fc.mode) == SInt {
				return binding{Leaf(IntLitBig(n)), t}, true
			}
			return binding{Leaf(BVLit(n, bits)), t}, true
		case b.Info()&types.IsBoolean != 0:
			if constant.BoolVal(v) {
				return binding{Leaf(TTrue), t}, true
			}
			return binding{Leaf(TFalse), t}, true
		case b.Info()&types.IsString != 0:
			return binding{Leaf(fc.eng.strLit(constant.StringVal(v))), t}, true
		}
	}
	return binding{}, false
}

// ---------------------------------------------------------------------

func (fc *FnCtx) specBool(env *Env, text string) (Term, error) {
	sv, err := fc.specExpr(env, text)
	if err != nil {
		return Term{}, err
	}
	if sv.v.K != KLeaf || sv.v.T.Sort != SBool {
		return Term{}, fmt.Errorf("not a boolean: %s", text)
	}
	return sv.v.T, nil
}

// specBoolGoal evaluates a goal, replacing positive universal quantifiers by skolem constants.
func (fc *FnCtx) specBoolGoal(env *Env, text string) (Term, []skolem, error) {
	g := env.sub()
	g.skolemize = true
	g.pos = true
	g.skRoot = g
	t, err := fc.specBool(g, text)
	return t, g.skolems, err
}

func (fc *FnCtx) specExpr(env *Env, text string) (sv sval, err error) {
	defer func() {
		if r := recover(); r != nil {
			err = fmt.Errorf("spec %q: %v", text, r)
		}
	}()
	ex, perr := parser.ParseExpr(text)
	if perr != nil {
		return sval{}, perr
	}
	return env.eval(ex), nil
}

func (fc *FnCtx) toIntTerm(sv sval) (Term, bool) {
	if sv.isConst {
		return IntLitBig(sv.c), true
	}
	if sv.v.K != KLeaf {
		return Term{}, false
	}
	if sv.v.T.Sort == SInt {
		return sv.v.T, true
	}
	if sv.v.T.Sort.IsBV() && sv.t != nil {
		return fc.toIndex(sv.v.T, sv.t), true
	}
	return Term{}, false
}

func specPanic(format string, args ...interface{}) {
	panic(fmt.Sprintf(format, args...))
}

func (e *Env) eval(ex ast.Expr) sval {
	fc := e.fc
	pos := e.pos
	e.pos = false
	defer func() { e.pos = pos }()
	switch x := ex.(type) {
	case *ast.ParenExpr:
		e.pos = pos
		return e.eval(x.X)
	case *ast.BasicLit:
		switch x.Kind {
		case token.INT:
			n, ok := new(big.Int).SetString(x.Value, 0)
			if !ok {
				specPanic("bad int literal %s", x.Value)
			}
			return sval{isConst: true, c: n}
		case token.CHAR:
			r, _, _, err := strconv.UnquoteChar(x.Value[1:len(x.Value)-1], '\'')
			if err != nil {
				specPanic("bad char literal")
			}
			return sval{isConst: true, c: big.NewInt(int64(r))}
		case token.STRING:
			s, err := strconv.Unquote(x.Value)
			if err != nil {
				specPanic("bad string literal")
			}
			return sval{v: Leaf(fc.eng.strLit(s)), t: types.Typ[types.String]}
		}
	case *ast.Ident:
		switch x.Name {
		case "true":
			return sval{v: Leaf(TTrue), t: types.Typ[types.Bool]}
		case "false":
			return sval{v: Leaf(TFalse), t: types.Typ[types.Bool]}
		case "nil":
			return sval{v: Value{K: KOpaque}, t: types.Typ[types.UntypedNil]}
		}
		if e.pkg != nil {
			if pd, ok := fc.eng.contracts.Preds[contractKey(e.pkg.Path(), x.Name)]; ok {
				pe, perr := parser.ParseExpr(pd.Body)
				if perr != nil {
					specPanic("pred %s: %v", x.Name, perr)
				}
				e.pos = pos // a predicate is transparent for positivity
				return e.eval(pe)
			}
		}
		b, ok := e.resolve(x.Name)
		if !ok {
			specPanic("unresolved name %q", x.Name)
		}
		return sval{v: b.v, t: b.t}
	case *ast.UnaryExpr:
		if x.Op == token.AND {
			// &name: the cell of a captured variable (closure contracts)
			if id, ok := x.X.(*ast.Ident); ok {
				if b, ok := e.binds["&"+id.Name]; ok {
					return sval{v: b.v, t: b.t}
				}
			}
			// &a[i] / &p.f where the operand already denotes the address of an aggregate
			a := e.eval(x.X)
			if _, isPtr := a.t.Underlying().(*types.Pointer); isPtr && a.v.K == KPtr {
				return a
			}
			specPanic("unsupported address-of")
		}
		a := e.eval(x.X)
		switch x.Op {
		case token.NOT:
			return sval{v: Leaf(Not(a.v.T)), t: types.Typ[types.Bool]}
		case token.SUB:
			if a.isConst {
				return sval{isConst: true, c: new(big.Int).Neg(a.c)}
			}
			if a.v.T.Sort == SInt {
				bits, signed, _ := intInfo(a.t)
				return sval{v: Leaf(wrapOnce(Sub(IntLit(0), a.v.T), bits, signed)), t: a.t}
			}
			return sval{v: Leaf(mk(a.v.T.Sort, "bvneg", a.v.T)), t: a.t}
		case token.XOR:
			if a.v.T.Sort.IsBV() {
				return sval{v: Leaf(mk(a.v.T.Sort, "bvnot", a.v.T)), t: a.t}
			}
		}
		specPanic("unsupported unary %s", x.Op)
	case *ast.BinaryExpr:
		e.evalPos = pos
		return e.evalBinary(x)
	case *ast.CallExpr:
		e.evalPos = pos
		return e.evalCall(x)
	case *ast.IndexExpr:
		return e.evalIndex(x)
	case *ast.SliceExpr:
		return e.evalSlice(x)
	case *ast.SelectorExpr:
		return e.evalSelector(x)
	case *ast.StarExpr:
		a := e.eval(x.X)
		pt, ok := a.t.Underlying().(*types.Pointer)
		if !ok || a.v.K != KPtr {
			specPanic("deref of non-pointer")
		}
		return sval{v: e.loadT(pt.Elem(), a.v.Obj(), a.v.Off()), t: pt.Elem()}
	}
	specPanic("unsupported expression %T", ex)
	return sval{}
}

// coerce turns a constant into a value of type t.
func (e *Env) coerce(a sval, t types.Type) sval {
	if !a.isConst {
		return a
	}
	fc := e.fc
	if t == nil {
		t = types.Typ[types.Int]
	}
	if t == specIntType {
		return sval{v: Leaf(IntLitBig(a.c)), t: t}
	}
	bits, _, ok := intInfo(t)
	if !ok {
		if _, isF := t.Underlying().(*types.Basic); isF {
			specPanic("constant used as %s", t)
		}
		specPanic("constant used as %s", t)
	}
	if intSort(bits, fc.mode) == SInt {
		return sval{v: Leaf(IntLitBig(a.c)), t: t}
	}
	return sval{v: Leaf(BVLit(a.c, bits)), t: t}
}

// derefArr loads the value of a small byte array denoted by its address.
func (e *Env) derefArr(a sval) sval {
	if a.isConst || a.t == nil || a.v.K != KPtr {
		return a
	}
	if pt, ok := a.t.(*types.Pointer); ok {
		if _, small := isSmallByteArray(pt.Elem()); small {
			return sval{v: e.loadT(pt.Elem(), a.v.Obj(), a.v.Off()), t: pt.Elem()}
		}
	}
	return a
}

func (e *Env) evalBinary(x *ast.BinaryExpr) sval {
	fc := e.fc
	if x.Op == token.LAND && e.skolemize {
		// conjunction preserves positivity (the caller saved it in evalPos)
		p := e.evalPos
		e.pos = p
		a := e.eval(x.X)
		e.pos = p
		b := e.eval(x.Y)
		e.pos = false
		return sval{v: Leaf(And(a.v.T, b.v.T)), t: types.Typ[types.Bool]}
	}
	a := e.eval(x.X)
	// nil comparisons
	if id, ok := x.Y.(*ast.Ident); ok && id.Name == "nil" && (x.Op == token.EQL || x.Op == token.NEQ) {
		var t Term
		switch a.v.K {
		case KPtr, KSlice, KIface:
			t = Eq(a.v.E[0].T, IntLit(0))
		case KLeaf:
			t = Eq(a.v.T, IntLit(0))
		default:
			specPanic("nil comparison on %v", a.v.K)
		}
		if x.Op == token.NEQ {
			t = Not(t)
		}
		return sval{v: Leaf(t), t: types.Typ[types.Bool]}
	}
	b := e.eval(x.Y)
	a, b = e.derefArr(a), e.derefArr(b)
	if a.isConst && b.isConst {
		r := new(big.Int)
		switch x.Op {
		case token.ADD:
			r.Add(a.c, b.c)
		case token.SUB:
			r.Sub(a.c, b.c)
		case token.MUL:
			r.Mul(a.c, b.c)
		case token.QUO:
			r.Quo(a.c, b.c)
		case token.REM:
			r.Rem(a.c, b.c)
		case token.SHL:
			r.Lsh(a.c, uint(b.c.Int64()))
		case token.SHR:
			r.Rsh(a.c, uint(b.c.Int64()))
		case token.AND:
			r.And(a.c, b.c)
		case token.OR:
			r.Or(a.c, b.c)
		case token.XOR:
			r.Xor(a.c, b.c)
		case token.EQL, token.NEQ, token.LSS, token.LEQ, token.GTR, token.GEQ:
			c := a.c.Cmp(b.c)
			var res bool
			switch x.Op {
			case token.EQL:
				res = c == 0
			case token.NEQ:
				res = c != 0
			case token.LSS:
				res = c < 0
			case token.LEQ:
				res = c <= 0
			case token.GTR:
				res = c > 0
			default:
				res = c >= 0
			}
			if res {
				return sval{v: Leaf(TTrue), t: types.Typ[types.Bool]}
			}
			return sval{v: Leaf(TFalse), t: types.Typ[types.Bool]}
		default:
			specPanic("const op %s", x.Op)
		}
		return sval{isConst: true, c: r}
	}
	isShift := x.Op == token.SHL || x.Op == token.SHR
	if isShift {
		if a.isConst {
			a = e.coerce(a, types.Typ[types.Int])
		}
		if b.isConst {
			b = e.coerce(b, types.Typ[types.Uint])
		}
	} else {
		if a.isConst {
			a = e.coerce(a, b.t)
		}
		if b.isConst {
			b = e.coerce(b, a.t)
		}
	}
	switch x.Op {
	case token.LAND:
		return sval{v: Leaf(And(a.v.T, b.v.T)), t: types.Typ[types.Bool]}
	case token.LOR:
		return sval{v: Leaf(Or(a.v.T, b.v.T)), t: types.Typ[types.Bool]}
	}
	if x.Op == token.EQL || x.Op == token.NEQ {
		if a.v.K != KLeaf || b.v.K != KLeaf {
			t := fc.valueEq(a.v, b.v, a.t)
			if x.Op == token.NEQ {
				t = Not(t)
			}
			return sval{v: Leaf(t), t: types.Typ[types.Bool]}
		}
	}
	if a.v.K != KLeaf || b.v.K != KLeaf {
		specPanic("binary %s on aggregates", x.Op)
	}
	if (a.t == specIntType || b.t == specIntType) && !isShift {
		ai, ok1 := fc.toIntTerm(a)
		bi, ok2 := fc.toIntTerm(b)
		if !ok1 || !ok2 {
			specPanic("mathint arithmetic on non-integers")
		}
		return e.intOp(x.Op, ai, bi)
	}
	at, bt := a.v.T, b.v.T
	if at.Sort != bt.Sort && !isShift {
		// mixed Int / BV (e.g. quantified Int index vs bv-mode int): bring both to Int
		ai, ok1 := fc.toIntTerm(a)
		bi, ok2 := fc.toIntTerm(b)
		if !ok1 || !ok2 {
			specPanic("sort mismatch in %s: %s vs %s", x.Op, at.Sort, bt.Sort)
		}
		at, bt = ai, bi
		a.t = types.Typ[types.Int]
		if fc.mode == ModeBV {
			// compute in unbounded Int
			return e.intOp(x.Op, at, bt)
		}
	}
	r, _ := fc.binop(x.Op, at, bt, a.t, b.t)
	if r.IsZero() {
		specPanic("unsupported operator %s on %s", x.Op, at.Sort)
	}
	rt := a.t
	switch x.Op {
	case token.EQL, token.NEQ, token.LSS, token.LEQ, token.GTR, token.GEQ:
		rt = types.Typ[types.Bool]
	}
	return sval{v: Leaf(r), t: rt}
}

// intOp: arithmetic on unbounded Ints (used for mixed-sort spec arithmetic).
func (e *Env) intOp(op token.Token, a, b Term) sval {
	var it types.Type = specIntType
	bt := types.Typ[types.Bool]
	switch op {
	case token.ADD:
		return sval{v: Leaf(Add(a, b)), t: it}
	case token.SUB:
		return sval{v: Leaf(Sub(a, b)), t: it}
	case token.MUL:
		return sval{v: Leaf(Mul(a, b)), t: it}
	case token.QUO:
		return sval{v: Leaf(mk(SInt, "div", a, b)), t: it}
	case token.REM:
		return sval{v: Leaf(mk(SInt, "mod", a, b)), t: it}
	case token.EQL:
		return sval{v: Leaf(Eq(a, b)), t: bt}
	case token.NEQ:
		return sval{v: Leaf(Not(Eq(a, b))), t: bt}
	case token.LSS:
		return sval{v: Leaf(Lt(a, b)), t: bt}
	case token.LEQ:
		return sval{v: Leaf(Le(a, b)), t: bt}
	case token.GTR:
		return sval{v: Leaf(Gt(a, b)), t: bt}
	case token.GEQ:
		return sval{v: Leaf(Ge(a, b)), t: bt}
	}
	specPanic("unsupported Int operator %s", op)
	return sval{}
}

func (e *Env) evalIndex(x *ast.IndexExpr) sval {
	fc := e.fc
	a := e.eval(x.X)
	i := e.coerce(e.eval(x.Index), types.Typ[types.Int])
	switch t := a.t.Underlying().(type) {
	case *types.Slice:
		idx, ok := fc.toIntTerm(i)
		if !ok || a.v.K != KSlice {
			specPanic("bad slice index")
		}
		c := cellsOf(t.Elem())
		return sval{v: e.loadT(t.Elem(), a.v.Obj(), Add(a.v.Off(), Mul(idx, IntLit(c)))), t: t.Elem()}
	case *types.Array:
		idx, ok := fc.toIntTerm(i)
		if !ok {
			specPanic("bad array index")
		}
		if n, small := isSmallByteArray(a.t); small && a.v.K == KLeaf {
			return sval{v: Leaf(byteOfBV(a.v.T, idx, int(n))), t: t.Elem()}
		}
		if a.v.K == KLeaf && a.v.T.Sort.IsArr() {
			return sval{v: Leaf(Select(a.v.T, idx)), t: t.Elem()}
		}
	case *types.Pointer:
		// pointer to array (globals): index into memory
		if arr, ok := t.Elem().Underlying().(*types.Array); ok && a.v.K == KPtr {
			idx, ok := fc.toIntTerm(i)
			if !ok {
				specPanic("bad array index")
			}
			c := cellsOf(arr.Elem())
			off := Add(a.v.Off(), Mul(idx, IntLit(c)))
			if _, isArr := arr.Elem().Underlying().(*types.Array); isArr {
				if _, small := isSmallByteArray(arr.Elem()); !small {
					return sval{v: PtrV(a.v.Obj(), off), t: types.NewPointer(arr.Elem())}
				}
			}
			if _, isStruct := arr.Elem().Underlying().(*types.Struct); isStruct {
				return sval{v: PtrV(a.v.Obj(), off), t: types.NewPointer(arr.Elem())}
			}
			return sval{v: e.loadT(arr.Elem(), a.v.Obj(), off), t: arr.Elem()}
		}
	case *types.Map:
		if a.v.K == KLeaf {
			k := e.coerce(i, t.Key())
			slot := fc.mapSlot(t.Key(), k.v)
			return sval{v: e.loadT(t.Elem(), a.v.T, Mul(slot, IntLit(cellsOf(t.Elem())))), t: t.Elem()}
		}
	case *types.Basic:
		if a.v.K == KLeaf && a.v.T.Sort == SStr {
			idx, _ := fc.toIntTerm(i)
			return sval{v: Leaf(mk(SBV(8), "s_at", a.v.T, idx)), t: types.Typ[types.Uint8]}
		}
	}
	specPanic("unsupported index on %s", a.t)
	return sval{}
}

func (e *Env) evalSlice(x *ast.SliceExpr) sval {
	fc := e.fc
	a := e.eval(x.X)
	st, ok := a.t.Underlying().(*types.Slice)
	if !ok || a.v.K != KSlice {
		if a.v.K == KLeaf && a.v.T.Sort == SStr {
			lo := IntLit(0)
			hi := strLen(a.v.T)
			if x.Low != nil {
				lo, _ = fc.toIntTerm(e.coerce(e.eval(x.Low), types.Typ[types.Int]))
			}
			if x.High != nil {
				hi, _ = fc.toIntTerm(e.coerce(e.eval(x.High), types.Typ[types.Int]))
			}
			return sval{v: Leaf(mk(SStr, "s_sub", a.v.T, lo, hi)), t: a.t}
		}
		specPanic("slice expression on %s", a.t)
	}
	lo := IntLit(0)
	hi := a.v.Len()
	if x.Low != nil {
		lo, _ = fc.toIntTerm(e.coerce(e.eval(x.Low), types.Typ[types.Int]))
	}
	if x.High != nil {
		hi, _ = fc.toIntTerm(e.coerce(e.eval(x.High), types.Typ[types.Int]))
	}
	c := cellsOf(st.Elem())
	return sval{v: SliceV(a.v.Obj(), Add(a.v.Off(), Mul(lo, IntLit(c))), Sub(hi, lo), Sub(a.v.Cap(), lo)), t: a.t}
}

func (e *Env) evalSelector(x *ast.SelectorExpr) sval {
	fc := e.fc
	_ = fc
	// package-qualified constant
	if id, ok := x.X.(*ast.Ident); ok && e.pkg != nil {
		if _, isLocal := e.resolve(id.Name); !isLocal {
			for _, imp := range e.pkg.Imports() {
				if imp.Name() == id.Name {
					if gv, ok := imp.Scope().Lookup(x.Sel.Name).(*types.Var); ok {
						if sp := fc.eng.spkgs[imp.Path()]; sp != nil {
							if g, ok := sp.Members[gv.Name()].(*ssa.Global); ok {
								et := g.Type().Underlying().(*types.Pointer).Elem()
								return sval{v: e.loadT(et, IntLit(fc.eng.globalIDs[g]), IntLit(0)), t: et}
							}
						}
					}
					if c, ok := imp.Scope().Lookup(x.Sel.Name).(*types.Const); ok {
						b, ok := e.constBinding(c)
						if ok {
							if c.Type().Underlying().(*types.Basic).Info()&types.IsUntyped != 0 {
								n, _ := new(big.Int).SetString(constant.ToInt(c.Val()).ExactString(), 10)
								return sval{isConst: true, c: n}
							}
							return sval{v: b.v, t: b.t}
						}
					}
					specPanic("unsupported package member %s.%s", id.Name, x.Sel.Name)
				}
			}
		}
	}
	a := e.eval(x.X)
	t := a.t
	v := a.v
	if pt, ok := t.Underlying().(*types.Pointer); ok {
		// implicit deref
		stt, ok := pt.Elem().Underlying().(*types.Struct)
		if !ok || v.K != KPtr {
			specPanic("selector on pointer to non-struct")
		}
		for i := 0; i < stt.NumFields(); i++ {
			if stt.Field(i).Name() == x.Sel.Name {
				off := offPlus(v.Off(), fieldCellOffset(stt, i))
				ft := stt.Field(i).Type()
				if _, isArr := ft.Underlying().(*types.Array); isArr {
					// arrays reached through a pointer stay addresses: indexing reads one cell;
					// where a value is needed (comparison) it is loaded on demand (derefArr)
					return sval{v: PtrV(v.Obj(), off), t: types.NewPointer(ft)}
				}
				return sval{v: e.loadT(ft, v.Obj(), off), t: ft}
			}
		}
		specPanic("no field %s", x.Sel.Name)
	}
	stt, ok := t.Underlying().(*types.Struct)
	if !ok || v.K != KStruct {
		specPanic("selector %s on non-struct %s", x.Sel.Name, t)
	}
	for i := 0; i < stt.NumFields(); i++ {
		if stt.Field(i).Name() == x.Sel.Name {
			return sval{v: v.E[i], t: stt.Field(i).Type()}
		}
	}
	specPanic("no field %s", x.Sel.Name)
	return sval{}
}

func (e *Env) lookupType(ex ast.Expr) (types.Type, bool) {
	switch x := ex.(type) {
	case *ast.Ident:
		if obj := types.Universe.Lookup(x.Name); obj != nil {
			if tn, ok := obj.(*types.TypeName); ok {
				return tn.Type(), true
			}
		}
		if e.pkg != nil {
			if tn, ok := e.pkg.Scope().Lookup(x.Name).(*types.TypeName); ok {
				return tn.Type(), true
			}
		}
	case *ast.SelectorExpr:
		if id, ok := x.X.(*ast.Ident); ok && e.pkg != nil {
			for _, imp := range e.pkg.Imports() {
				if imp.Name() == id.Name {
					if tn, ok := imp.Scope().Lookup(x.Sel.Name).(*types.TypeName); ok {
						return tn.Type(), true
					}
				}
			}
		}
	}
	return nil, false
}

func (e *Env) evalCall(x *ast.CallExpr) sval {
	fc := e.fc
	boolT := types.Typ[types.Bool]
	intT := types.Typ[types.Int]
	if id, ok := x.Fun.(*ast.Ident); ok {
		switch id.Name {
		case "old":
			n := e.sub()
			n.st = e.old
			n.header = nil
			n.viaPred = nil
			n.callee = true
			n.binds = map[string]binding{}
			for k, v := range e.binds {
				n.binds[k] = v
			}
			if e.oldBinds != nil {
				for k, v := range e.oldBinds {
					n.binds[k] = v
				}
			} else {
				for k, v := range fc.params {
					n.binds[k] = binding{v, fc.paramT[k]}
				}
			}
			return n.eval(x.Args[0])
		case "head":
			if e.headEnv == nil {
				specPanic("head() is only available in use-step clauses")
			}
			return e.headEnv.eval(x.Args[0])
		case "len", "cap":
			a := e.eval(x.Args[0])
			switch t := a.t.Underlying().(type) {
			case *types.Slice:
				if id.Name == "len" {
					return sval{v: Leaf(a.v.Len()), t: intT, }.asInt(fc)
				}
				return sval{v: Leaf(a.v.Cap()), t: intT}.asInt(fc)
			case *types.Array:
				return sval{isConst: true, c: big.NewInt(t.Len())}
			case *types.Pointer:
				if arr, ok := t.Elem().Underlying().(*types.Array); ok {
					return sval{isConst: true, c: big.NewInt(arr.Len())}
				}
			case *types.Basic:
				if a.v.K == KLeaf && a.v.T.Sort == SStr {
					return sval{v: Leaf(strLen(a.v.T)), t: intT}.asInt(fc)
				}
			case *types.Map:
				return sval{v: Leaf(Ite(Eq(a.v.T, IntLit(0)), IntLit(0), Select(e.st.mlen, a.v.T))), t: intT}.asInt(fc) // len(nil map) == 0
			}
			specPanic("len of %s", a.t)
		case "forall", "exists":
			if len(x.Args) < 4 {
				specPanic("%s(i, lo, hi, body [, trigger...])", id.Name)
			}
			vid, ok := x.Args[0].(*ast.Ident)
			if !ok {
				specPanic("quantifier variable must be an identifier")
			}
			wasPos := e.evalPos
			lo, _ := fc.toIntTerm(e.coerce(e.eval(x.Args[1]), intT))
			hi, _ := fc.toIntTerm(e.coerce(e.eval(x.Args[2]), intT))
			*e.qn++
			if id.Name == "forall" && e.skolemize && wasPos && e.skRoot != nil {
				// goal-side universal quantifier in positive position: a fresh constant
				saveBlk := fc.curBlk
				fc.curBlk = -1
				sk := fc.freshConst(vid.Name+"!sk", SInt)
				fc.curBlk = saveBlk
				e.skRoot.skolems = append(e.skRoot.skolems, skolem{vid.Name, sk})
				n := e.sub()
				n.binds[vid.Name] = binding{Leaf(sk), specIntType}
				n.pos = true
				body := n.eval(x.Args[3])
				if body.v.K != KLeaf || body.v.T.Sort != SBool {
					specPanic("quantifier body not boolean")
				}
				return sval{v: Leaf(Implies(And(Le(lo, sk), Lt(sk, hi)), body.v.T)), t: boolT}
			}
			qv := Term{fmt.Sprintf("%s!q%d", vid.Name, *e.qn), SInt}
			n := e.sub()
			n.binds[vid.Name] = binding{Leaf(qv), specIntType}
			body := n.eval(x.Args[3])
			if body.v.K != KLeaf || body.v.T.Sort != SBool {
				specPanic("quantifier body not boolean")
			}
			rng := And(Le(lo, qv), Lt(qv, hi))
			if id.Name == "forall" {
				// optional explicit triggers: forall(i, lo, hi, body, t1, t2...) -- a multi-pattern
				var pats []string
				for _, ta := range x.Args[4:] {
					tv := n.eval(ta)
					switch tv.v.K {
					case KSlice, KPtr:
						pats = append(pats, tv.v.Obj().S)
					case KLeaf:
						pats = append(pats, tv.v.T.S)
					default:
						specPanic("quantifier trigger must be a scalar, pointer or slice expression")
					}
				}
				if len(pats) > 0 {
					return sval{v: Leaf(Term{fmt.Sprintf("(forall ((%s Int)) (! %s :pattern (%s)))", qv.S, Implies(rng, body.v.T).S, strings.Join(pats, " ")), SBool}), t: boolT}
				}
				return sval{v: Leaf(Term{fmt.Sprintf("(forall ((%s Int)) %s)", qv.S, Implies(rng, body.v.T).S), SBool}), t: boolT}
			}
			return sval{v: Leaf(Term{fmt.Sprintf("(exists ((%s Int)) %s)", qv.S, And(rng, body.v.T).S), SBool}), t: boolT}
		case "forallv", "existsv":
			// forallv(x, Type, body): quantify over every value of a scalar type
			if len(x.Args) != 3 {
				specPanic("%s(x, Type, body)", id.Name)
			}
			vid, ok := x.Args[0].(*ast.Ident)
			if !ok {
				specPanic("quantifier variable must be an identifier")
			}
			qt, ok := e.lookupType(x.Args[1])
			if !ok {
				specPanic("unknown type in %s", id.Name)
			}
			sh := shapeOf(qt, fc.mode)
			if sh.K != KLeaf {
				specPanic("%s over non-scalar type", id.Name)
			}
			*e.qn++
			qv := Term{fmt.Sprintf("%s!q%d", vid.Name, *e.qn), sh.Sort}
			n := e.sub()
			n.binds[vid.Name] = binding{Leaf(qv), qt}
			body := n.eval(x.Args[2])
			if body.v.K != KLeaf || body.v.T.Sort != SBool {
				specPanic("quantifier body not boolean")
			}
			rng := And(fc.typeFacts(qt, Leaf(qv), e.st.next)...)
			if id.Name == "forallv" {
				return sval{v: Leaf(Term{fmt.Sprintf("(forall ((%s %s)) %s)", qv.S, sh.Sort, Implies(rng, body.v.T).S), SBool}), t: boolT}
			}
			return sval{v: Leaf(Term{fmt.Sprintf("(exists ((%s %s)) %s)", qv.S, sh.Sort, And(rng, body.v.T).S), SBool}), t: boolT}
		case "visitedall":
			// visitedall(m, v, body): body holds for every value of m already produced by
			// the (unique) range loop over a map in this function
			if len(x.Args) != 3 || len(fc.rangeGhost) != 1 {
				specPanic("visitedall(m, v, body) needs exactly one range-over-map loop in the function")
			}
			var gname string
			for _, g := range fc.rangeGhost {
				gname = g
			}
			m := e.eval(x.Args[0])
			mt, ok := m.t.Underlying().(*types.Map)
			vid, ok2 := x.Args[1].(*ast.Ident)
			if !ok || !ok2 || m.v.K != KLeaf {
				specPanic("visitedall: bad arguments")
			}
			*e.qn++
			sv := Term{fmt.Sprintf("slot!q%d", *e.qn), SInt}
			n := e.sub()
			val := e.loadT(mt.Elem(), m.v.T, Mul(sv, IntLit(cellsOf(mt.Elem()))))
			n.binds[vid.Name] = binding{val, mt.Elem()}
			body := n.eval(x.Args[2])
			vis := Select(e.st.ghost[gname], sv)
			return sval{v: Leaf(Term{fmt.Sprintf("(forall ((%s Int)) (! %s :pattern (%s)))", sv.S, Implies(vis, body.v.T).S, vis.S), SBool}), t: boolT}
		case "mapkeys":
			// mapkeys(m, k, body): body holds for every key k present in map m (scalar keys)
			if len(x.Args) != 3 {
				specPanic("mapkeys(m, k, body)")
			}
			m := e.eval(x.Args[0])
			mt, ok := m.t.Underlying().(*types.Map)
			kid, ok2 := x.Args[1].(*ast.Ident)
			if !ok || !ok2 || m.v.K != KLeaf {
				specPanic("mapkeys: bad arguments")
			}
			ksh := shapeOf(mt.Key(), fc.mode)
			if ksh.K != KLeaf {
				specPanic("mapkeys: only scalar key types")
			}
			*e.qn++
			wasPosK := e.evalPos
			sv := Term{fmt.Sprintf("slot!q%d", *e.qn), SInt}
			skK := e.skolemize && wasPosK && e.skRoot != nil
			if skK {
				saveBlk := fc.curBlk
				fc.curBlk = -1
				sv = fc.freshConst("slot!sk", SInt)
				fc.curBlk = saveBlk
			}
			name := "slot_" + sortTag(ksh.Sort)
			fc.eng.needSlot(name, []Term{{"k", ksh.Sort}})
			key := mk(ksh.Sort, name+"_inv0", sv)
			n := e.sub()
			n.binds[kid.Name] = binding{Leaf(key), mt.Key()}
			body := n.eval(x.Args[2])
			if body.v.K != KLeaf || body.v.T.Sort != SBool {
				specPanic("mapkeys body not boolean")
			}
			indom := Select(Select(e.st.mdom, m.v.T), sv)
			// a slot in the domain is the slot of its own key
			self := Eq(mk(SInt, name, key), sv)
			if skK {
				return sval{v: Leaf(Implies(indom, And(self, body.v.T))), t: boolT}
			}
			return sval{v: Leaf(Term{fmt.Sprintf("(forall ((%s Int)) (! %s :pattern (%s)))", sv.S, Implies(indom, And(self, body.v.T)).S, indom.S), SBool}), t: boolT}
		case "mapall":
			// mapall(m, v, body): body holds for every value v stored in map m
			if len(x.Args) != 3 {
				specPanic("mapall(m, v, body)")
			}
			m := e.eval(x.Args[0])
			mt, ok := m.t.Underlying().(*types.Map)
			vid, ok2 := x.Args[1].(*ast.Ident)
			if !ok || !ok2 || m.v.K != KLeaf {
				specPanic("mapall: bad arguments")
			}
			*e.qn++
			sv := Term{fmt.Sprintf("slot!q%d", *e.qn), SInt}
			n := e.sub()
			val := e.loadT(mt.Elem(), m.v.T, Mul(sv, IntLit(cellsOf(mt.Elem()))))
			n.binds[vid.Name] = binding{val, mt.Elem()}
			body := n.eval(x.Args[2])
			if body.v.K != KLeaf || body.v.T.Sort != SBool {
				specPanic("mapall body not boolean")
			}
			indom := Select(Select(e.st.mdom, m.v.T), sv)
			return sval{v: Leaf(Term{fmt.Sprintf("(forall ((%s Int)) (! %s :pattern (%s)))", sv.S, Implies(indom, body.v.T).S, indom.S), SBool}), t: boolT}
		case "implies":
			wasPos := e.evalPos
			a := e.eval(x.Args[0])
			e.pos = wasPos
			b := e.eval(x.Args[1])
			e.pos = false
			return sval{v: Leaf(Implies(a.v.T, b.v.T)), t: boolT}
		case "iff":
			a, b := e.eval(x.Args[0]), e.eval(x.Args[1])
			return sval{v: Leaf(Eq(a.v.T, b.v.T)), t: boolT}
		case "ite":
			c := e.eval(x.Args[0])
			a, b := e.eval(x.Args[1]), e.eval(x.Args[2])
			if a.isConst {
				a = e.coerce(a, b.t)
			}
			if b.isConst {
				b = e.coerce(b, a.t)
			}
			return sval{v: fc.iteValue(c.v.T, a.v, b.v), t: a.t}
		case "mathint":
			// unbounded integer view of an integer expression
			a := e.coerce(e.eval(x.Args[0]), intT)
			t, ok := fc.toIntTerm(a)
			if !ok {
				specPanic("mathint of non-integer")
			}
			return sval{v: Leaf(t), t: specIntType}
		case "bytes":
			a := e.eval(x.Args[0])
			if a.v.K != KSlice {
				specPanic("bytes() of non-slice")
			}
			return sval{v: Leaf(bytesOf(e.st, a.v)), t: specBytesType}
		case "ult":
			// unsigned comparison of two byte arrays read as little-endian integers (element 0 is
			// the least significant byte)
			a, b := e.eval(x.Args[0]), e.eval(x.Args[1])
			if a.v.K != KLeaf || b.v.K != KLeaf || !a.v.T.Sort.IsBV() || a.v.T.Sort != b.v.T.Sort {
				specPanic("ult of values that are not bit-vectors of one width")
			}
			return sval{v: Leaf(mk(SBool, "bvult", a.v.T, b.v.T)), t: boolT}
		case "md5":
			a := e.eval(x.Args[0])
			return sval{v: Leaf(mk(SBV(128), "md5", a.v.T)), t: md5Type}
		case "crc32":
			a := e.eval(x.Args[0])
			return sval{v: Leaf(mk(SBV(32), "crc32", a.v.T)), t: types.Typ[types.Uint32]}
		case "sameSlice":
			a, b := e.eval(x.Args[0]), e.eval(x.Args[1])
			if a.v.K != KSlice || b.v.K != KSlice {
				specPanic("sameSlice of non-slices")
			}
			return sval{v: Leaf(And(Eq(a.v.Obj(), b.v.Obj()), Eq(a.v.Off(), b.v.Off()), Eq(a.v.Len(), b.v.Len()))), t: boolT}
		case "sameArray":
			a, b := e.eval(x.Args[0]), e.eval(x.Args[1])
			return sval{v: Leaf(Eq(a.v.Obj(), b.v.Obj())), t: boolT}
		case "disjoint":
			a, b := e.eval(x.Args[0]), e.eval(x.Args[1])
			return sval{v: Leaf(slicesDisjoint(a, b)), t: boolT}
		case "allocated":
			// allocated(x): the object x refers to has been allocated in the state the clause is evaluated in
			a := e.eval(x.Args[0])
			var obj Term
			switch a.v.K {
			case KPtr, KSlice:
				obj = a.v.Obj()
			case KLeaf:
				obj = a.v.T
			default:
				specPanic("allocated of non-reference")
			}
			return sval{v: Leaf(Lt(obj, e.st.next)), t: boolT}
		case "fresh":
			a := e.eval(x.Args[0])
			var obj Term
			switch a.v.K {
			case KPtr, KSlice:
				obj = a.v.Obj()
			case KLeaf:
				obj = a.v.T
			default:
				specPanic("fresh of non-reference")
			}
			return sval{v: Leaf(Ge(obj, e.old.next)), t: boolT}
		case "lastcall":
			// lastcall(name[, i]): the (i-th) result of the most recent call, on this path
			// prefix, of a function whose qualified name ends in name
			nm := strings.Trim(exprText(x.Args[0]), "\"")
			var found *Value
			var ft types.Type
			for k, v := range fc.lastCall {
				if strings.HasSuffix(k, nm) {
					vv := v
					found = &vv
				}
			}
			if found == nil {
				specPanic("lastcall: no call of %s seen", nm)
			}
			val := *found
			if len(x.Args) > 1 {
				ix := e.eval(x.Args[1])
				if !ix.isConst || val.K != KTuple || int(ix.c.Int64()) >= len(val.E) {
					specPanic("lastcall: bad result index")
				}
				val = val.E[ix.c.Int64()]
			}
			switch val.K {
			case KIface:
				ft = types.Universe.Lookup("error").Type()
			case KLeaf:
				if val.T.Sort == SBool {
					ft = types.Typ[types.Bool]
				} else {
					ft = types.Typ[types.Int]
				}
			default:
				specPanic("lastcall: unsupported result shape")
			}
			return sval{v: val, t: ft}
		case "pathIsAbs", "pathClean", "pathDir", "pathBase", "pathExt", "fpIsAbs", "pathAbs":
			a := e.eval(x.Args[0])
			fn := map[string]string{"pathIsAbs": "p_isabs", "pathClean": "p_clean", "pathDir": "fp_dir", "pathBase": "fp_base", "pathExt": "p_ext", "fpIsAbs": "fp_isabs", "pathAbs": "fp_abs"}[id.Name]
			if id.Name == "pathIsAbs" || id.Name == "fpIsAbs" {
				return sval{v: Leaf(mk(SBool, fn, a.v.T)), t: boolT}
			}
			return sval{v: Leaf(mk(SStr, fn, a.v.T)), t: types.Typ[types.String]}
		case "pathJoin", "pathRel":
			a, b := e.eval(x.Args[0]), e.eval(x.Args[1])
			fn := map[string]string{"pathJoin": "fp_join", "pathRel": "fp_rel"}[id.Name]
			return sval{v: Leaf(mk(SStr, fn, a.v.T, b.v.T)), t: types.Typ[types.String]}
		case "isNotExist":
			a := e.eval(x.Args[0])
			if a.v.K != KIface {
				specPanic("isNotExist of non-interface")
			}
			return sval{v: Leaf(mk(SBool, "isNotExist", a.v.E[0].T, a.v.E[1].T)), t: boolT}
		case "hastype":
			// hastype(x, "pkg.Type"): the dynamic type of interface value x
			a := e.eval(x.Args[0])
			nm := strings.Trim(exprText(x.Args[1]), "\"")
			if a.v.K != KIface {
				specPanic("hastype of non-interface")
			}
			return sval{v: Leaf(Eq(a.v.E[0].T, IntLit(fc.eng.typeIDByName(nm)))), t: boolT}
		case "buflen":
			// buflen(b): unread bytes of a *bytes.Buffer
			a := e.eval(x.Args[0])
			if a.v.K != KPtr {
				specPanic("buflen of non-pointer")
			}
			blen := e.st.cellRead(SInt, a.v.Obj(), offPlus(a.v.Off(), 2))
			off := e.st.cellRead(SInt, a.v.Obj(), offPlus(a.v.Off(), 4))
			return sval{v: Leaf(Sub(blen, off)), t: specIntType}
		case "newerThan":
			// newerThan(a, b): the object a refers to was allocated after the one b refers to
			objOf := func(v sval) Term {
				switch v.v.K {
				case KPtr, KSlice:
					return v.v.Obj()
				case KLeaf:
					if v.v.T.Sort == SInt {
						return v.v.T
					}
				}
				specPanic("newerThan of non-reference")
				return Term{}
			}
			a, b := e.eval(x.Args[0]), e.eval(x.Args[1])
			return sval{v: Leaf(Gt(objOf(a), objOf(b))), t: boolT}
		case "min", "max":
			a := e.coerce(e.eval(x.Args[0]), intT)
			b := e.coerce(e.eval(x.Args[1]), a.t)
			c, _ := fc.binop(token.LSS, a.v.T, b.v.T, a.t, b.t)
			if id.Name == "min" {
				return sval{v: Leaf(Ite(c, a.v.T, b.v.T)), t: a.t}
			}
			return sval{v: Leaf(Ite(c, b.v.T, a.v.T)), t: a.t}
		}
		// call of a pure function-typed parameter, or of a function-typed logical variable / predicate argument
		isLogicalFn := false
		if b, ok := e.binds[id.Name]; ok && b.t != nil {
			_, isLogicalFn = b.t.Underlying().(*types.Signature)
		} else if b, ok := fc.logical[id.Name]; ok && b.t != nil {
			_, isLogicalFn = b.t.Underlying().(*types.Signature)
		} else if fc.fn != nil {
			// a captured function-typed variable of a closure whose enclosing function declares it pure
			for _, fvar := range fc.fn.FreeVars {
				if fvar.Name() == id.Name && fc.fn.Parent() != nil {
					if pc := fc.eng.contractFor(fc.fn.Parent()); pc != nil && pc.pureParam(id.Name) {
						isLogicalFn = true
					}
				}
			}
		}
		if (fc.c != nil && fc.c.pureParam(id.Name)) || isLogicalFn {
			if b, ok := e.resolve(id.Name); ok && b.v.K == KLeaf {
				if sig, isSig := b.t.Underlying().(*types.Signature); isSig && sig.Results().Len() == 1 {
					var args []Value
					for k, ae := range x.Args {
						a := e.coerce(e.eval(ae), sig.Params().At(k).Type())
						args = append(args, a.v)
					}
					if v, ok := fc.applyUF(b.v.T, args, sig.Results().At(0).Type()); ok {
						return sval{v: v, t: sig.Results().At(0).Type()}
					}
				}
			}
		}
		// parameterised predicate?
		if e.pkg != nil {
			if pd, ok := fc.eng.contracts.Preds[contractKey(e.pkg.Path(), id.Name)]; ok && len(pd.Params) == len(x.Args) && len(pd.Params) > 0 {
				wasPos := e.evalPos
				n := e.sub()
				n.pos = false
				for i, pn := range pd.Params {
					a := e.eval(x.Args[i])
					if a.isConst {
						a = e.coerce(a, types.Typ[types.Int])
					}
					n.binds[pn] = binding{a.v, a.t}
				}
				pe, perr := parser.ParseExpr(pd.Body)
				if perr != nil {
					specPanic("pred %s: %v", id.Name, perr)
				}
				n.pos = wasPos // a predicate is transparent for positivity
				return n.eval(pe)
			}
		}
		// spec function?
		if e.pkg != nil {
			if fobj, ok := e.pkg.Scope().Lookup(id.Name).(*types.Func); ok {
				return e.applySpecFn(fobj, x.Args)
			}
		}
	}
	// type conversion
	if t, ok := e.lookupType(x.Fun); ok && len(x.Args) == 1 {
		a := e.eval(x.Args[0])
		if a.isConst {
			return e.coerce(a, t)
		}
		_, _, fi := intInfo(a.t)
		_, _, ti := intInfo(t)
		if fi && ti && a.v.K == KLeaf {
			src := a.v.T
			from := a.t
			if a.t == specIntType {
				// unbounded int -> wrap into the target
				bits, signed, _ := intInfo(t)
				if intSort(bits, fc.mode) == SInt {
					return sval{v: Leaf(wrapInt(src, bits, signed)), t: t}
				}
				return sval{v: Leaf(int2bv(src, bits)), t: t}
			}
			return sval{v: Leaf(fc.convertInt(src, from, t)), t: t}
		}
		// same representation (named array types, etc.)
		return sval{v: a.v, t: t}
	}
	// pure interface method called on a value: recv.Method(args)
	if sel, ok := x.Fun.(*ast.SelectorExpr); ok {
		if id, isId := sel.X.(*ast.Ident); isId {
			if b, found := e.resolve(id.Name); found && b.v.K == KIface {
				if n, isNamed := b.t.(*types.Named); isNamed {
					if it, isIface := n.Underlying().(*types.Interface); isIface {
						for i := 0; i < it.NumMethods(); i++ {
							m := it.Method(i)
							if m.Name() != sel.Sel.Name {
								continue
							}
							sig := m.Type().(*types.Signature)
							if sig.Results().Len() != 1 {
								break
							}
							var args []Value
							for k, ae := range x.Args {
								a := e.coerce(e.eval(ae), sig.Params().At(k).Type())
								args = append(args, a.v)
							}
							if v, ok := fc.ifaceMethodUF(n.Obj().Name(), m.Name(), b.v, args, sig.Results().At(0).Type()); ok {
								return sval{v: v, t: sig.Results().At(0).Type()}
							}
						}
					}
				}
			}
		}
	}
	// package-qualified spec function (other package)
	if sel, ok := x.Fun.(*ast.SelectorExpr); ok {
		if id, ok := sel.X.(*ast.Ident); ok && e.pkg != nil {
			for _, imp := range e.pkg.Imports() {
				if imp.Name() == id.Name {
					if fobj, ok := imp.Scope().Lookup(sel.Sel.Name).(*types.Func); ok {
						return e.applySpecFn(fobj, x.Args)
					}
				}
			}
		}
	}
	specPanic("unsupported call %s", exprString(x.Fun))
	return sval{}
}

// specIntType marks unbounded mathematical integers in specs.
var specIntType = types.NewNamed(types.NewTypeName(token.NoPos, nil, "mathint", nil), types.Typ[types.Int], nil)
var specBytesType = types.NewNamed(types.NewTypeName(token.NoPos, nil, "Bytes", nil), types.Typ[types.String], nil)
var md5Type = types.NewArray(types.Typ[types.Uint8], 16)

func (s sval) asInt(fc *FnCtx) sval {
	// lengths are Ints; in bv mode keep them as unbounded spec ints
	if fc.mode == ModeBV {
		s.t = specIntType
	}
	return s
}

func bytesOf(st *State, s Value) Term {
	return mk("Bytes", "seq", Select(st.heap[SBV(8)], s.Obj()), s.Off(), s.Len())
}

func slicesDisjoint(a, b sval) Term {
	ca := int64(1)
	cb := int64(1)
	if st, ok := a.t.Underlying().(*types.Slice); ok {
		ca = cellsOf(st.Elem())
	}
	if st, ok := b.t.Underlying().(*types.Slice); ok {
		cb = cellsOf(st.Elem())
	}
	return Or(Not(Eq(a.v.Obj(), b.v.Obj())),
		Le(Add(a.v.Off(), Mul(a.v.Len(), IntLit(ca))), b.v.Off()),
		Le(Add(b.v.Off(), Mul(b.v.Len(), IntLit(cb))), a.v.Off()))
}

func exprString(e ast.Expr) string {
	switch x := e.(type) {
	case *ast.Ident:
		return x.Name
	case *ast.SelectorExpr:
		return exprString(x.X) + "." + x.Sel.Name
	}
	return fmt.Sprintf("%T", e)
}

var _ = strings.Join

// loadT loads a value in a spec expression and records the well-typedness facts
// of the loaded value (slice lengths are non-negative, references are allocated):
// they hold of every Go heap, also of a havocked one.
func (e *Env) loadT(t types.Type, obj, off Term) Value {
	fc := e.fc
	v := fc.load(e.st, t, obj, off)
	if fc.pureMode || v.K == KOpaque {
		return v
	}
	var fs []Term
	fs = fc.typeFacts(t, v, e.st.next)
	for _, f := range fs {
		if !strings.Contains(f.S, "!q") && !strings.Contains(f.S, "!L") {
			fc.assume(f)
		} else {
			e.pending = append(e.pending, f)
		}
	}
	return v
}
