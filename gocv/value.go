package main

import (
	"fmt"
	"go/types"
	"strings"
)

// Mode selects the integer model of a function (DESIGN §2.3).
type Mode int

const (
	ModeInt Mode = iota // 64-bit integers are mathematical Ints with exact wrap-around; <=32-bit are bit-vectors
	ModeBV              // every integer is a bit-vector of its width
)

func (m Mode) String() string {
	if m == ModeBV {
		return "bv"
	}
	return "int"
}

type VKind int

const (
	KLeaf   VKind = iota
	KPtr          // E = obj, off
	KSlice        // E = obj, off, len, cap
	KIface        // E = typ, val
	KStruct       // E = fields
	KTuple        // E = components
	KOpaque       // unsupported aggregate as a value; no information
)

// Value is a meta-level aggregate whose leaves are SMT terms.
type Value struct {
	K VKind
	T Term
	E []Value
}

func Leaf(t Term) Value { return Value{K: KLeaf, T: t} }
func PtrV(obj, off Term) Value {
	return Value{K: KPtr, E: []Value{Leaf(obj), Leaf(off)}}
}
func SliceV(obj, off, ln, cp Term) Value {
	return Value{K: KSlice, E: []Value{Leaf(obj), Leaf(off), Leaf(ln), Leaf(cp)}}
}
func IfaceV(typ, val Term) Value {
	return Value{K: KIface, E: []Value{Leaf(typ), Leaf(val)}}
}

func (v Value) Obj() Term { return v.E[0].T }
func (v Value) Off() Term { return v.E[1].T }
func (v Value) Len() Term { return v.E[2].T }
func (v Value) Cap() Term { return v.E[3].T }

// Leaves flattens a value to its leaf terms.
func (v Value) Leaves() []Term {
	switch v.K {
	case KLeaf:
		return []Term{v.T}
	case KOpaque:
		return nil
	}
	var out []Term
	for _, e := range v.E {
		out = append(out, e.Leaves()...)
	}
	return out
}

func (v Value) String() string {
	if v.K == KLeaf {
		return v.T.S
	}
	var parts []string
	for _, e := range v.E {
		parts = append(parts, e.String())
	}
	return fmt.Sprintf("<%d:%s>", v.K, strings.Join(parts, ","))
}

// MapLeaves rebuilds a value with f applied to each leaf.
func (v Value) MapLeaves(f func(Term) Term) Value {
	if v.K == KLeaf {
		return Leaf(f(v.T))
	}
	out := Value{K: v.K}
	for _, e := range v.E {
		out.E = append(out.E, e.MapLeaves(f))
	}
	return out
}

// Shape describes how a Go type is represented.
type Shape struct {
	K    VKind
	Sort Sort    // leaf
	E    []Shape // components
	Typ  types.Type
}

func leafShape(s Sort, t types.Type) Shape { return Shape{K: KLeaf, Sort: s, Typ: t} }

var intShape = leafShape(SInt, nil)

func basicIntInfo(b *types.Basic) (bits int, signed bool, ok bool) {
	switch b.Kind() {
	case types.Int8:
		return 8, true, true
	case types.Int16:
		return 16, true, true
	case types.Int32, types.UntypedRune:
		return 32, true, true
	case types.Int64, types.Int, types.UntypedInt:
		return 64, true, true
	case types.Uint8:
		return 8, false, true
	case types.Uint16:
		return 16, false, true
	case types.Uint32:
		return 32, false, true
	case types.Uint64, types.Uint, types.Uintptr:
		return 64, false, true
	}
	return 0, false, false
}

// intInfo reports width/signedness of an integer type.
func intInfo(t types.Type) (bits int, signed bool, ok bool) {
	b, isb := t.Underlying().(*types.Basic)
	if !isb {
		return 0, false, false
	}
	return basicIntInfo(b)
}

// intSort gives the sort of an integer type under a mode.
func intSort(bits int, mode Mode) Sort {
	if mode == ModeBV || bits < 64 {
		return SBV(bits)
	}
	return SInt
}

const smallByteArrayMax = 16

// shapeOf maps a Go type to its value shape.
func shapeOf(t types.Type, mode Mode) Shape {
	switch u := t.Underlying().(type) {
	case *types.Basic:
		if bits, _, ok := basicIntInfo(u); ok {
			return leafShape(intSort(bits, mode), t)
		}
		switch u.Kind() {
		case types.Bool, types.UntypedBool:
			return leafShape(SBool, t)
		case types.String, types.UntypedString:
			return leafShape(SStr, t)
		case types.Float32, types.Float64, types.UntypedFloat:
			return leafShape("F64", t)
		case types.UnsafePointer:
			return Shape{K: KPtr, E: []Shape{intShape, intShape}, Typ: t}
		case types.UntypedNil:
			return Shape{K: KPtr, E: []Shape{intShape, intShape}, Typ: t}
		}
		return Shape{K: KOpaque, Typ: t}
	case *types.Pointer:
		return Shape{K: KPtr, E: []Shape{intShape, intShape}, Typ: t}
	case *types.Slice:
		return Shape{K: KSlice, E: []Shape{intShape, intShape, intShape, intShape}, Typ: t}
	case *types.Interface:
		return Shape{K: KIface, E: []Shape{intShape, intShape}, Typ: t}
	case *types.Map, *types.Chan, *types.Signature:
		return leafShape(SInt, t)
	case *types.Struct:
		sh := Shape{K: KStruct, Typ: t}
		for i := 0; i < u.NumFields(); i++ {
			sh.E = append(sh.E, shapeOf(u.Field(i).Type(), mode))
		}
		return sh
	case *types.Tuple:
		sh := Shape{K: KTuple, Typ: t}
		for i := 0; i < u.Len(); i++ {
			sh.E = append(sh.E, shapeOf(u.At(i).Type(), mode))
		}
		return sh
	case *types.Array:
		es := shapeOf(u.Elem(), mode)
		if es.K == KLeaf && es.Sort == SBV(8) && u.Len() <= smallByteArrayMax && u.Len() > 0 {
			return leafShape(SBV(int(8*u.Len())), t)
		}
		if es.K == KLeaf {
			return leafShape(SArr(SInt, es.Sort), t)
		}
		return Shape{K: KOpaque, Typ: t}
	}
	return Shape{K: KOpaque, Typ: t}
}

// cellsOf is the number of memory cells a type occupies.
func cellsOf(t types.Type) int64 {
	switch u := t.Underlying().(type) {
	case *types.Pointer:
		return 2
	case *types.Slice:
		return 4
	case *types.Interface:
		return 2
	case *types.Struct:
		var n int64
		for i := 0; i < u.NumFields(); i++ {
			n += cellsOf(u.Field(i).Type())
		}
		if n == 0 {
			n = 1
		}
		return n
	case *types.Array:
		return u.Len() * cellsOf(u.Elem())
	case *types.Basic:
		if u.Kind() == types.UnsafePointer {
			return 2
		}
	}
	return 1
}

// fieldCellOffset is the cell offset of field i in a struct.
func fieldCellOffset(st *types.Struct, i int) int64 {
	var n int64
	for k := 0; k < i; k++ {
		n += cellsOf(st.Field(k).Type())
	}
	return n
}

// isSmallByteArray reports arrays represented as one bit-vector value.
func isSmallByteArray(t types.Type) (n int64, ok bool) {
	a, isa := t.Underlying().(*types.Array)
	if !isa {
		return 0, false
	}
	if bits, _, ok := intInfo(a.Elem()); ok && bits == 8 && a.Len() <= smallByteArrayMax && a.Len() > 0 {
		return a.Len(), true
	}
	return 0, false
}

func sortTag(s Sort) string {
	switch {
	case s == SBool:
		return "bool"
	case s == SInt:
		return "int"
	case s == SStr:
		return "str"
	case s == "F64":
		return "f64"
	case s.IsBV():
		return fmt.Sprintf("bv%d", s.BVWidth())
	}
	r := strings.NewReplacer("(", "", ")", "", " ", "_")
	return r.Replace(string(s))
}
