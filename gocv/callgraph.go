package main

import (
	"fmt"
	"sort"
	"strings"

	"golang.org/x/tools/go/ssa"
)

// reachable computes the functions reachable from root through static calls,
// closures and (class-hierarchy style) interface invokes inside the repository,
// and the set of external callees / invoked method names met on the way.
func (e *Engine) reachable(root *ssa.Function) (fns map[*ssa.Function]bool, external map[string]bool, invokes map[string]bool) {
	fns = map[*ssa.Function]bool{}
	external = map[string]bool{}
	invokes = map[string]bool{}
	work := []*ssa.Function{root}
	for len(work) > 0 {
		fn := work[len(work)-1]
		work = work[:len(work)-1]
		if fns[fn] {
			continue
		}
		fns[fn] = true
		for _, b := range fn.Blocks {
			for _, ins := range b.Instrs {
				if mc, ok := ins.(*ssa.MakeClosure); ok {
					work = append(work, mc.Fn.(*ssa.Function))
				}
				ci, ok := ins.(ssa.CallInstruction)
				if !ok {
					continue
				}
				cc := ci.Common()
				if cc.IsInvoke() {
					invokes[cc.Method.Name()] = true
					if ifaceName(cc) == "fileIO" {
						continue // the filesystem boundary: implementations are the environment
					}
					// repository implementations of the method
					for _, cand := range e.funcs {
						if cand.Signature.Recv() != nil && cand.Name() == cc.Method.Name() {
							work = append(work, cand)
						}
					}
					continue
				}
				switch v := cc.Value.(type) {
				case *ssa.Function:
					if e.isRepoFunc(v) {
						work = append(work, v)
					} else {
						external[v.String()] = true
					}
				case *ssa.MakeClosure:
					work = append(work, v.Fn.(*ssa.Function))
				case *ssa.Builtin:
				default:
					invokes["<dynamic>"] = true
				}
			}
		}
	}
	return
}

// callGraphCheck: from each root no forbidden external callee / invoked method is reachable.
func (cr *checkRun) callGraphCheck(name string, roots []string, forbidExternal []string, forbidInvoke []string, exemptFns []string) {
	for _, r := range roots {
		fn, ok := cr.e.funcs[r]
		o := &Oblig{Fn: "callgraph", Name: fmt.Sprintf("callgraph:%s#%s", r[strings.LastIndex(r, "/")+1:], name), Kind: "callgraph", preSolved: true, goal: TFalse, Solver: "call-graph reachability (static + class-hierarchy)"}
		cr.obs = append(cr.obs, o)
		if !ok {
			o.Status = "unknown"
			o.Detail = "root function not found"
			continue
		}
		fns, ext, inv := cr.e.reachable(fn)
		var bad []string
		for x := range ext {
			for _, f := range forbidExternal {
				if strings.HasPrefix(x, f) {
					bad = append(bad, "calls "+x)
				}
			}
		}
		for _, m := range forbidInvoke {
			if inv[m] {
				// find which function invokes it
				for f := range fns {
					exempt := false
					for _, ex := range exemptFns {
						if strings.HasSuffix(f.String(), ex) {
							exempt = true
						}
					}
					if exempt {
						continue
					}
					for _, b := range f.Blocks {
						for _, ins := range b.Instrs {
							if ci, ok := ins.(ssa.CallInstruction); ok && ci.Common().IsInvoke() && ci.Common().Method.Name() == m {
								bad = append(bad, f.String()+" invokes "+m)
							}
						}
					}
				}
			}
		}
		sort.Strings(bad)
		o.Cases = int64(len(fns))
		if len(bad) == 0 {
			o.Status = "proved"
			o.Detail = fmt.Sprintf("%d functions reachable", len(fns))
		} else {
			o.Status = "refuted"
			o.Model = strings.Join(bad, "\n")
			o.Replayed = true
		}
	}
}

// onlyExternal: every external callee reachable from root is in the allow list.
func (cr *checkRun) onlyExternal(name string, root string, allow []string) {
	fn, ok := cr.e.funcs[root]
	o := &Oblig{Fn: "callgraph", Name: fmt.Sprintf("callgraph:%s#%s", root[strings.LastIndex(root, "/")+1:], name), Kind: "callgraph", preSolved: true, goal: TFalse, Solver: "call-graph reachability (static + class-hierarchy)"}
	cr.obs = append(cr.obs, o)
	if !ok {
		o.Status = "unknown"
		o.Detail = "root function not found"
		return
	}
	_, ext, inv := cr.e.reachable(fn)
	var bad []string
	for x := range ext {
		okx := false
		for _, a := range allow {
			if x == a {
				okx = true
			}
		}
		if !okx {
			bad = append(bad, "calls "+x)
		}
	}
	for m := range inv {
		bad = append(bad, "invokes "+m)
	}
	sort.Strings(bad)
	if len(bad) == 0 {
		o.Status = "proved"
	} else {
		o.Status = "refuted"
		o.Model = strings.Join(bad, "\n")
		o.Replayed = true
	}
}

// ghostsTouchedByBody: the ghost variables that executing fn's body may change, i.e. the
// ghost-set variables of the contracts of everything called from fn or from any repository
// function reachable from it (interface methods with an assumed contract included). fn's own
// ghost-set clauses are not part of it (they are applied on top at its call sites).
func (e *Engine) ghostsTouchedByBody(fn *ssa.Function) map[string]bool {
	if e.ghostMemo == nil {
		e.ghostMemo = map[*ssa.Function]map[string]bool{}
	}
	if g, ok := e.ghostMemo[fn]; ok {
		return g
	}
	out := map[string]bool{}
	e.ghostMemo[fn] = out
	if len(e.ghosts) == 0 {
		return out
	}
	fns, _, _ := e.reachable(fn)
	for f := range fns {
		for _, b := range f.Blocks {
			for _, ins := range b.Instrs {
				ci, ok := ins.(ssa.CallInstruction)
				if !ok {
					continue
				}
				cc := ci.Common()
				var c *Contract
				if cc.IsInvoke() {
					c = e.ifaceContract(cc)
				} else if callee, ok := cc.Value.(*ssa.Function); ok {
					c = e.contractFor(callee)
				} else if mc, ok := cc.Value.(*ssa.MakeClosure); ok {
					c = e.contractFor(mc.Fn.(*ssa.Function))
				}
				if c != nil {
					for _, g := range c.GhostUpd {
						out[g.Var] = true
					}
				}
			}
		}
	}
	return out
}
