package main

import (
	"bytes"
	"context"
	"fmt"
	"go/types"
	"golang.org/x/tools/go/ssa"
	"os"
	"os/exec"
	"path/filepath"
	"sort"
	"strings"
	"sync"
	"time"
)

// prelude emits sorts, uninterpreted functions and axioms shared by all queries.
func (e *Engine) prelude() string { return e.preludeFor("") }

// preludeFor: the prelude restricted to the string literals that occur in the given query text
// (an empty text keeps all), so that a query does not depend on which other functions the
// engine has translated before.
func (e *Engine) preludeFor(text string) string {
	var sb strings.Builder
	sb.WriteString("(declare-sort Str 0)\n(declare-sort Bytes 0)\n(declare-sort F64 0)\n")
	sb.WriteString("(declare-fun s_len (Str) Int)\n(declare-fun s_at (Str Int) (_ BitVec 8))\n")
	sb.WriteString("(declare-fun s_cat (Str Str) Str)\n(declare-fun s_sub (Str Int Int) Str)\n(declare-fun s_lt (Str Str) Bool)\n")
	sb.WriteString("(declare-fun s_frombytes ((Array Int (_ BitVec 8)) Int Int) Str)\n")
	sb.WriteString("(declare-fun seq ((Array Int (_ BitVec 8)) Int Int) Bytes)\n")
	sb.WriteString("(declare-fun md5 (Bytes) (_ BitVec 128))\n(declare-fun crc32 (Bytes) (_ BitVec 32))\n(declare-fun b_len (Bytes) Int)\n")
	sb.WriteString("(declare-fun otype (Int) Int)\n")
	sb.WriteString("(declare-const strlit_empty Str)\n(assert (= (s_len strlit_empty) 0))\n")
	sb.WriteString("(define-fun maxSliceCap () Int 70368744177664)\n(define-fun maxAlloc () Int 281474976710656)\n")
	sb.WriteString("(define-fun tdiv ((a Int) (b Int)) Int (ite (>= a 0) (ite (> b 0) (div a b) (- (div a (- b)))) (ite (> b 0) (- (div (- a) b)) (div (- a) (- b)))))\n")
	sb.WriteString("(define-fun trem ((a Int) (b Int)) Int (- a (* b (tdiv a b))))\n")
	// string literals
	var usedLits []int
	for i := range e.strList {
		if text == "" || containsToken(text, e.strNames[i]) {
			usedLits = append(usedLits, i)
		}
	}
	sort.Slice(usedLits, func(a, b int) bool { return e.strNames[usedLits[a]] < e.strNames[usedLits[b]] })
	for _, i := range usedLits {
		s := e.strList[i]
		nm := e.strNames[i]
		fmt.Fprintf(&sb, "(declare-const %s Str)\n(assert (= (s_len %s) %d))\n", nm, nm, len(s))
		for k := 0; k < len(s) && k < 8; k++ {
			fmt.Fprintf(&sb, "(assert (= (s_at %s %d) (_ bv%d 8)))\n", nm, k, s[k])
		}
		if s == "" {
			fmt.Fprintf(&sb, "(assert (= %s strlit_empty))\n", nm)
		}
	}
	if len(usedLits) > 1 {
		sb.WriteString("(assert (distinct")
		for _, i := range usedLits {
			fmt.Fprintf(&sb, " %s", e.strNames[i])
		}
		sb.WriteString("))\n")
	}
	// boxes
	var bs []string
	for s := range boxSorts {
		bs = append(bs, string(s))
	}
	sort.Strings(bs)
	for _, s := range bs {
		tag := sortTag(Sort(s))
		if text != "" && !strings.Contains(text, "box_"+tag) {
			continue
		}
		fmt.Fprintf(&sb, "(declare-fun box_%s (%s) Int)\n(declare-fun unbox_%s (Int) %s)\n", tag, s, tag, s)
		fmt.Fprintf(&sb, "(assert (forall ((x %s)) (! (= (unbox_%s (box_%s x)) x) :pattern ((box_%s x)))))\n", s, tag, tag, tag)
	}
	sb.WriteString("(declare-fun box_ptr (Int Int) Int)\n(declare-fun unbox_ptr_obj (Int) Int)\n(declare-fun unbox_ptr_off (Int) Int)\n")
	if text == "" || strings.Contains(text, "box_ptr") {
		sb.WriteString("(assert (forall ((o Int) (f Int)) (! (and (= (unbox_ptr_obj (box_ptr o f)) o) (= (unbox_ptr_off (box_ptr o f)) f)) :pattern ((box_ptr o f)))))\n")
	}
	// map slots (injective)
	var sl []string
	for n := range slotFns {
		sl = append(sl, n)
	}
	sort.Strings(sl)
	for _, n := range sl {
		if text != "" && !strings.Contains(text, n) {
			continue
		}
		ss := slotFns[n]
		var ps, xs, srt []string
		for i, s := range ss {
			ps = append(ps, fmt.Sprintf("(x%d %s)", i, s))
			xs = append(xs, fmt.Sprintf("x%d", i))
			srt = append(srt, string(s))
		}
		fmt.Fprintf(&sb, "(declare-fun %s (%s) Int)\n", n, strings.Join(srt, " "))
		for i, s := range ss {
			fmt.Fprintf(&sb, "(declare-fun %s_inv%d (Int) %s)\n", n, i, s)
			fmt.Fprintf(&sb, "(assert (forall (%s) (! (= (%s_inv%d (%s %s)) x%d) :pattern ((%s %s)))))\n",
				strings.Join(ps, " "), n, i, n, strings.Join(xs, " "), i, n, strings.Join(xs, " "))
		}
		fmt.Fprintf(&sb, "(assert (forall (%s) (! (>= (%s %s) 0) :pattern ((%s %s)))))\n", strings.Join(ps, " "), n, strings.Join(xs, " "), n, strings.Join(xs, " "))
	}
	var ap []string
	for n := range applyFns {
		ap = append(ap, n)
	}
	sort.Strings(ap)
	for _, n := range ap {
		if text != "" && !strings.Contains(text, n) {
			continue
		}
		ss := applyFns[n]
		var srt []string
		for _, s := range ss[:len(ss)-1] {
			srt = append(srt, string(s))
		}
		fmt.Fprintf(&sb, "(declare-fun %s (%s) %s)\n", n, strings.Join(srt, " "), ss[len(ss)-1])
	}
	for _, hs := range heapSorts {
		fmt.Fprintf(&sb, "(declare-const FG_%s %s)\n", sortTag(hs), heapSort(hs))
	}
	sb.WriteString(e.extraPrelude(text))
	return sb.String()
}

// query builds the SMT-LIB text for one obligation.
func (fc *FnCtx) query(o *Oblig) string { return fc.queryMode(o, false) }

// queryMode with instancesOnly=true drops every universally quantified hypothesis that has been
// instantiated explicitly (keeping only its instances). The result has fewer hypotheses, so
// `unsat` for it is a proof of the full obligation; `sat`/`unknown` for it mean nothing.
func (fc *FnCtx) queryMode(o *Oblig, instancesOnly bool) string {
	var sb strings.Builder
	var opq map[string]bool
	if fc.opaqueRec {
		opq = map[string]bool{}
		for n := range fc.eng.specDefs {
			opq[n] = true
		}
	}
	if fc.c != nil && len(fc.c.OpaqueFns) > 0 {
		if opq == nil {
			opq = map[string]bool{}
		}
		for n := range fc.eng.specDefs {
			for _, of := range fc.c.OpaqueFns {
				if strings.Contains(n, "."+of+"@") {
					opq["!"+n] = true
				}
			}
		}
	}
	sb.WriteString(fc.eng.specDefsText(fc.usedSpecs, opq))
	if fc.c != nil && fc.c.SeqExt {
		// byte sequences are extensional: two arrays that agree on [o, o+n) give the same bytes
		sb.WriteString("(declare-fun seqdiff ((Array Int (_ BitVec 8)) (Array Int (_ BitVec 8)) Int Int) Int)\n")
		sb.WriteString("(assert (forall ((a (Array Int (_ BitVec 8))) (b (Array Int (_ BitVec 8))) (o Int) (n Int)) (! (=> (or (not (and (<= o (seqdiff a b o n)) (< (seqdiff a b o n) (+ o n)))) (= (select a (seqdiff a b o n)) (select b (seqdiff a b o n)))) (= (seq a o n) (seq b o n))) :pattern ((seq a o n) (seq b o n)))))\n")
	}
	anc := fc.anc[o.blk]
	inScope := func(b int) bool { return o.blk == -2 || b == -1 || b == o.blk || anc[b] }
	for _, d := range fc.decls {
		if inScope(d.blk) {
			sb.WriteString(d.text)
			sb.WriteByte('\n')
		}
	}
	reach := func(b int) Term {
		if b < 0 {
			return TTrue
		}
		return fc.reach[b]
	}
	instTerms := append([]Term{}, o.InstTerms...)
	if o.blk >= 0 && fc.c != nil && fc.c.InstCounters {
		instTerms = append(instTerms, fc.loopCounterTerms(o.blk)...)
		instTerms = append(instTerms, IntLit(0)) // first element / first row
	}
	for _, f := range fc.facts {
		use := false
		switch {
		case o.blk == -2:
			use = !f.isAssert && !f.isExit
		case f.blk == -1:
			use = o.blk != -1 || f.seq < o.seq
		case f.blk == o.blk:
			use = f.seq < o.seq
		case anc[f.blk]:
			use = true
		}
		if !use {
			continue
		}
		if instancesOnly && len(instTerms) > 0 && len(topForalls(f.t.S)) > 0 {
			if rest := stripTopForalls(f.t.S); rest != "" {
				fmt.Fprintf(&sb, "(assert %s)\n", Implies(reach(f.blk), Term{rest, SBool}).S)
			}
		} else {
			fmt.Fprintf(&sb, "(assert %s)\n", Implies(reach(f.blk), f.t).S)
		}
		// explicit instances of universally quantified hypotheses at the goal's skolem terms
		// and at the counters of the enclosing loops
		if len(instTerms) > 0 {
			for _, inst := range instancesOf(f.t.S, instTerms, 2) {
				fmt.Fprintf(&sb, "(assert %s)\n", Implies(reach(f.blk), Term{inst, SBool}).S)
			}
		}
	}
	for _, l := range o.Local {
		fmt.Fprintf(&sb, "(assert %s)\n", l.S)
	}
	fmt.Fprintf(&sb, "(assert (not %s))\n", Implies(reach(o.blk), o.goal).S)
	sb.WriteString("(check-sat)\n(get-model)\n")
	body := sb.String()
	return "(set-option :produce-models true)\n(set-logic ALL)\n" + fc.eng.preludeFor(body) + body
}

// containsToken: name occurs in text not followed by a digit (strlit1 vs strlit10).
func containsToken(text, name string) bool {
	for i := 0; ; {
		j := strings.Index(text[i:], name)
		if j < 0 {
			return false
		}
		k := i + j + len(name)
		if k >= len(text) || text[k] < '0' || text[k] > '9' {
			return true
		}
		i = k
	}
}

type solverSpec struct {
	name string
	argv func(file string, timeoutSec int) []string
	fix  func(q string) string
}

var solvers = []solverSpec{
	{"z3-new", func(f string, t int) []string { return []string{"z3-new", fmt.Sprintf("-T:%d", t), f} }, nil},
	{"z3", func(f string, t int) []string { return []string{"z3", fmt.Sprintf("-T:%d", t), f} }, nil},
	{"cvc5", func(f string, t int) []string {
		return []string{"cvc5", "--tlimit", fmt.Sprintf("%d", t*1000), "--incremental", "--finite-model-find", f}
	}, cvc5Fix},
}

func cvc5Fix(q string) string {
	return q
}

type solveResult struct {
	status string
	solver string
	secs   float64
	out    string
}

// procSem bounds the number of solver processes to the number of cores.
var procSem = make(chan struct{}, 16)

func runSolver(sp solverSpec, file string, timeoutSec int) solveResult {
	procSem <- struct{}{}
	defer func() { <-procSem }()
	ctx, cancel := context.WithTimeout(context.Background(), time.Duration(timeoutSec+2)*time.Second)
	defer cancel()
	argv := sp.argv(file, timeoutSec)
	cmd := exec.CommandContext(ctx, argv[0], argv[1:]...)
	var out bytes.Buffer
	cmd.Stdout = &out
	cmd.Stderr = &out
	t0 := time.Now()
	_ = cmd.Run()
	secs := time.Since(t0).Seconds()
	s := out.String()
	first := ""
	for _, ln := range strings.Split(s, "\n") {
		ln = strings.TrimSpace(ln)
		if ln == "" || strings.HasPrefix(ln, "WARNING") || strings.HasPrefix(ln, "(warning") {
			continue
		}
		first = ln
		break
	}
	st := "unknown"
	switch {
	case first == "unsat":
		st = "proved"
	case first == "sat":
		st = "refuted"
	case first == "timeout" || ctx.Err() != nil:
		st = "timeout"
	case strings.HasPrefix(first, "(error") || strings.Contains(first, "rror"):
		st = "error"
	}
	return solveResult{st, sp.name, secs, s}
}

// solveOne runs the portfolio on one obligation.
func (e *Engine) solveOne(o *Oblig, dir string, t1, t2 int) {
	var q string
	if o.RawQuery != "" {
		q = o.RawQuery
	} else {
		q = o.fc.query(o)
	}
	o.Size = len(q)
	file := filepath.Join(dir, sanitize(o.Name)+".smt2")
	if err := os.WriteFile(file, []byte(q), 0644); err != nil {
		o.Status = "error"
		o.Detail = err.Error()
		return
	}
	o.File = file
	if o.NoReach && t1 > 2 {
		t1 = 2
	}
	if e.curProp != "" && !relevantTo(o, e.curProp) {
		// speaks about other properties of this function: one short attempt, their own checks
		// spend the full effort on it
		r := runSolver(solvers[0], file, t1)
		o.Secs, o.Status, o.Solver, o.Model = r.secs, r.status, r.solver, r.out
		return
	}
	if e.knownNames[o.Name] {
		// a recorded finding is expected not to be provable: one short attempt (it is reported as
		// KNOWN-FINDING unless it has become provable)
		r := runSolver(solvers[0], file, t1)
		o.Secs, o.Status, o.Solver, o.Model = r.secs, r.status, r.solver, r.out
		return
	}
	// weaker variant: explicitly instantiated quantified hypotheses replaced by their instances
	var gfile string
	if o.RawQuery == "" && !o.NoReach && o.fc != nil && o.fc.hasInstTerms(o) {
		gq := o.fc.queryMode(o, true)
		if gq != q {
			gfile = filepath.Join(dir, sanitize(o.Name)+".inst.smt2")
			if os.WriteFile(gfile, []byte(gq), 0644) != nil {
				gfile = ""
			}
		}
	}
	gch := make(chan solveResult, 1)
	if gfile != "" {
		go func() { gch <- runSolver(solvers[0], gfile, t1) }()
	}
	r := runSolver(solvers[0], file, t1)
	o.Secs += r.secs
	if r.status == "proved" || r.status == "refuted" || o.NoReach {
		o.Status, o.Solver, o.Model = r.status, r.solver, r.out
		return
	}
	if gfile != "" {
		if g := <-gch; g.status == "proved" {
			o.Status, o.Solver, o.Model = "proved", g.solver+"(instances-only)", g.out
			return
		}
		// second chance for the weaker variant with the long timeout, alongside stage 2
		go func() { gch <- runSolver(solvers[0], gfile, t2) }()
	}
	first := r
	// stage 2: all solvers in parallel with the long timeout
	ch := make(chan solveResult, len(solvers))
	for _, sp := range solvers {
		sp := sp
		go func() { ch <- runSolver(sp, file, t2) }()
	}
	var best solveResult
	best.status = first.status
	best.out = first.out
	best.solver = first.solver
	for range solvers {
		var r solveResult
		if gfile != "" {
			select {
			case r = <-ch:
			case g := <-gch:
				if g.status == "proved" {
					o.Status, o.Solver, o.Model = "proved", g.solver+"(instances-only)", g.out
					if g.secs > o.Secs {
						o.Secs = g.secs
					}
					return
				}
				gfile = ""
				r = <-ch
			}
		} else {
			r = <-ch
		}
		if r.secs > o.Secs {
			o.Secs = r.secs
		}
		if r.status == "proved" {
			best = r
			break
		}
		if r.status == "refuted" && best.status != "proved" {
			best = r
		} else if best.status != "refuted" && best.status != "proved" && r.status != "error" {
			best = r
		}
	}
	o.Status, o.Solver, o.Model = best.status, best.solver, best.out
}

func sanitize(s string) string {
	var sb strings.Builder
	for _, c := range s {
		switch {
		case c >= 'a' && c <= 'z', c >= 'A' && c <= 'Z', c >= '0' && c <= '9', c == '.', c == '-', c == '_':
			sb.WriteRune(c)
		default:
			sb.WriteByte('_')
		}
	}
	r := sb.String()
	if len(r) > 150 {
		r = r[:150] + fmt.Sprintf("_%x", hashStr(s))
	}
	return r
}

func hashStr(s string) uint32 {
	var h uint32 = 2166136261
	for i := 0; i < len(s); i++ {
		h ^= uint32(s[i])
		h *= 16777619
	}
	return h
}

// solveAll discharges obligations on all cores.
func (e *Engine) solveAll(obs []*Oblig, dir string, t1, t2 int, workers int) {
	os.MkdirAll(dir, 0755)
	var wg sync.WaitGroup
	ch := make(chan *Oblig)
	for w := 0; w < workers; w++ {
		wg.Add(1)
		go func() {
			defer wg.Done()
			for o := range ch {
				if o.preSolved {
					continue
				}
				if o.goal.S == "true" {
					o.Status, o.Solver = "proved", "trivial"
					continue
				}
				e.solveOne(o, dir, t1, t2)
			}
		}()
	}
	for _, o := range obs {
		ch <- o
	}
	close(ch)
	wg.Wait()
	// Last stage: obligations still undecided are retried a few at a time with a
	// long timeout, so that machine load during the parallel phase cannot turn
	// a provable obligation into an alarm.
	var retry []*Oblig
	for _, o := range obs {
		if !o.preSolved && !o.NoReach && o.Status != "proved" && o.Status != "refuted" && o.File != "" && !e.knownNames[o.Name] && (e.curProp == "" || relevantTo(o, e.curProp)) {
			retry = append(retry, o)
		}
	}
	if len(retry) == 0 || len(retry) > 8 || e.noRetry {
		// many failures at once mean the code changed shape, not that the machine was busy
		return
	}
	long := 2 * t2
	if long < 40 {
		long = 40
	}
	sem := make(chan struct{}, 4)
	var wg2 sync.WaitGroup
	for _, o := range retry {
		o := o
		wg2.Add(1)
		sem <- struct{}{}
		go func() {
			defer wg2.Done()
			defer func() { <-sem }()
			rs := make(chan solveResult, 2)
			go func() { rs <- runSolver(solvers[0], o.File, long) }()
			go func() { rs <- runSolver(solvers[1], o.File, long) }()
			for i := 0; i < 2; i++ {
				r := <-rs
				if r.status == "proved" || r.status == "refuted" {
					o.Status, o.Solver, o.Model = r.status, r.solver+"(retry)", r.out
					o.Secs += r.secs
					return
				}
			}
		}()
	}
	wg2.Wait()
}

type qform struct{ v, body string }

// topForalls finds universally quantified conjuncts (single Int variable) at the top
// level of a fact: "(forall ((x Int)) B)", possibly under a top-level "and", and with an
// optional "(! B :pattern ...)" wrapper.
// instancesOf: instances of the universally quantified conjuncts of a hypothesis at the given
// terms; a quantifier nested in the consequent of an instance (forall j. A => forall r. B) is
// instantiated again, up to the given depth.
func instancesOf(fact string, terms []Term, depth int) []string {
	var out []string
	for _, q := range topForalls(fact) {
		for _, it := range terms {
			inst := replaceVar(q.body, q.v, it.S)
			out = append(out, inst)
			if depth > 1 && strings.HasPrefix(inst, "(=> ") {
				parts := splitSexprs(inst[4 : len(inst)-1])
				if len(parts) == 2 && strings.HasPrefix(parts[1], "(forall ((") {
					for _, sub := range instancesOf(parts[1], terms, depth-1) {
						out = append(out, "(=> "+parts[0]+" "+sub+")")
					}
				}
			}
		}
	}
	return out
}

// stripTopForalls: the conjunction of the conjuncts of s that are not single-variable
// universal quantifiers ("" if none is left).
func stripTopForalls(s string) string {
	var keep []string
	var visit func(t string)
	visit = func(t string) {
		t = strings.TrimSpace(t)
		if strings.HasPrefix(t, "(and ") {
			for _, part := range splitSexprs(t[5 : len(t)-1]) {
				visit(part)
			}
			return
		}
		if len(topForalls(t)) > 0 {
			return
		}
		keep = append(keep, t)
	}
	visit(s)
	if len(keep) == 0 {
		return ""
	}
	if len(keep) == 1 {
		return keep[0]
	}
	return "(and " + strings.Join(keep, " ") + ")"
}

func topForalls(s string) []qform {
	var out []qform
	var visit func(t string)
	visit = func(t string) {
		t = strings.TrimSpace(t)
		if strings.HasPrefix(t, "(and ") {
			for _, part := range splitSexprs(t[5 : len(t)-1]) {
				visit(part)
			}
			return
		}
		if !strings.HasPrefix(t, "(forall ((") {
			return
		}
		rest := t[len("(forall (("):]
		sp := strings.Index(rest, " ")
		if sp < 0 || !strings.HasPrefix(rest[sp:], " Int)) ") {
			return
		}
		v := rest[:sp]
		if strings.HasPrefix(v, "o!") || strings.HasPrefix(v, "s!") || strings.HasPrefix(v, "slot!") {
			return // quantifiers over objects / map slots (frames, keep facts) are not index quantifiers
		}
		body := strings.TrimSpace(rest[sp+len(" Int)) ") : len(rest)-1])
		if strings.HasPrefix(body, "(! ") {
			parts := splitSexprs(body[3 : len(body)-1])
			if len(parts) > 0 {
				body = parts[0]
			}
		}
		out = append(out, qform{v, body})
	}
	visit(s)
	return out
}

// splitSexprs splits a sequence of s-expressions / atoms.
func splitSexprs(s string) []string {
	var out []string
	i := 0
	for i < len(s) {
		for i < len(s) && s[i] == ' ' {
			i++
		}
		if i >= len(s) {
			break
		}
		j := i + sexprEnd(s[i:])
		out = append(out, s[i:j])
		i = j
	}
	return out
}

// replaceVar substitutes a bound variable name by a term, respecting token boundaries.
func replaceVar(body, v, t string) string {
	var sb strings.Builder
	i := 0
	for i < len(body) {
		j := strings.Index(body[i:], v)
		if j < 0 {
			sb.WriteString(body[i:])
			break
		}
		j += i
		end := j + len(v)
		okL := j == 0 || body[j-1] == ' ' || body[j-1] == '('
		okR := end == len(body) || body[end] == ' ' || body[end] == ')'
		sb.WriteString(body[i:j])
		if okL && okR {
			sb.WriteString(t)
		} else {
			sb.WriteString(v)
		}
		i = end
	}
	return sb.String()
}

// loopCounterTerms: the integer loop-carried values (counters, range indices; for a range
// index also index+1) of the loops that contain block b. Quantified hypotheses are instantiated
// at them in addition to whatever the solver finds by matching.
func (fc *FnCtx) loopCounterTerms(b int) []Term {
	var out []Term
	seen := map[string]bool{}
	var heads []int
	for h := range fc.loops {
		heads = append(heads, h)
	}
	sort.Ints(heads) // deterministic query text: outer loops first
	for _, h := range heads {
		li := fc.loops[h]
		if !li.body[b] {
			continue
		}
		for _, ins := range li.header.Instrs {
			phi, ok := ins.(*ssa.Phi)
			if !ok {
				break
			}
			v, known := fc.vals[phi]
			if !known || v.K != KLeaf || v.T.Sort != SInt {
				continue
			}
			if bt, ok := phi.Type().Underlying().(*types.Basic); !ok || bt.Info()&types.IsInteger == 0 {
				continue
			}
			for _, t := range []Term{v.T, Add(v.T, IntLit(1))} {
				if !seen[t.S] {
					seen[t.S] = true
					out = append(out, t)
				}
			}
		}
	}
	return out
}

// hasInstTerms: the obligation has explicit instantiation terms (skolems, inst expressions,
// loop counters).
func (fc *FnCtx) hasInstTerms(o *Oblig) bool {
	if len(o.InstTerms) > 0 {
		return true
	}
	return o.blk >= 0 && fc.c != nil && fc.c.InstCounters
}
