package main

import (
	"fmt"
	"go/token"
	"go/types"
	"strings"

	"golang.org/x/tools/go/ssa"
)

// Library models: assumed contracts of standard-library functions, written
// natively. Each one used by a check is listed in that check's evidence.

type libFn func(fc *FnCtx, cc *ssa.CallCommon, args []Value, pos token.Pos, res ssa.Value) Value

type libModel struct {
	eff effects
	fn  libFn
}

var libModels = map[string]libModel{}
var libIfaceModels = map[string]libFn{}

func pureEff() effects {
	return effects{sorts: map[Sort]bool{}, ghosts: map[string]bool{}}
}

func allocEff() effects {
	e := pureEff()
	e.allocs = true
	return e
}

func bufEff() effects {
	e := pureEff()
	e.sorts[SInt] = true
	e.sorts[SBV(8)] = true
	e.allocs = true
	return e
}

func (e *Engine) extraPrelude(text string) string {
	var sb strings.Builder
	has := func(sym string) bool { return text == "" || strings.Contains(text, sym) }
	sb.WriteString("(declare-fun isNotExist (Int Int) Bool)\n(assert (not (isNotExist 0 0)))\n")
	sb.WriteString("(declare-fun p_ext (Str) Str)\n(declare-fun p_clean (Str) Str)\n(declare-fun p_isabs (Str) Bool)\n")
	sb.WriteString("(declare-fun fp_dir (Str) Str)\n(declare-fun fp_base (Str) Str)\n(declare-fun fp_join (Str Str) Str)\n(declare-fun fp_abs (Str) Str)\n(declare-fun fp_rel (Str Str) Str)\n(declare-fun fp_relok (Str Str) Bool)\n(declare-fun fp_isabs (Str) Bool)\n(declare-fun s_lower (Str) Str)\n")
	if has("p_ext") {
		sb.WriteString("(assert (forall ((s Str)) (! (and (<= 0 (s_len (p_ext s))) (<= (s_len (p_ext s)) (s_len s)) (= (p_ext s) (s_sub s (- (s_len s) (s_len (p_ext s))) (s_len s)))) :pattern ((p_ext s)))))\n")
	}
	if has("p_clean") {
		sb.WriteString("(assert (forall ((s Str)) (! (>= (s_len (p_clean s)) 1) :pattern ((p_clean s)))))\n")
	}
	sb.WriteString("(assert (forall ((s Str)) (! (and (>= (s_len s) 0) (<= (s_len s) 70368744177664)) :pattern ((s_len s)))))\n")
	if has("s_cat") {
		sb.WriteString("(assert (forall ((a Str) (b Str)) (! (= (s_len (s_cat a b)) (+ (s_len a) (s_len b))) :pattern ((s_cat a b)))))\n")
	}
	return sb.String()
}

func retTuple(vs ...Value) Value { return Value{K: KTuple, E: vs} }

func (fc *FnCtx) freshErr(name string) Value {
	v := IfaceV(fc.freshConst(name+".typ", SInt), fc.freshConst(name+".val", SInt))
	fc.assume(Ge(v.E[0].T, IntLit(0)))
	fc.assume(Implies(Eq(v.E[0].T, IntLit(0)), Eq(v.E[1].T, IntLit(0))))
	return v
}

func nilErr() Value { return IfaceV(IntLit(0), IntLit(0)) }

func (fc *FnCtx) nonNilErr(name string) Value {
	v := fc.freshErr(name)
	fc.assume(Not(Eq(v.E[0].T, IntLit(0))))
	return v
}

func (fc *FnCtx) freshStr(name string) Value {
	s := fc.freshConst(name, SStr)
	fc.assume(Ge(strLen(s), IntLit(0)))
	return Leaf(s)
}

func (fc *FnCtx) intRes(t Term) Value { return Leaf(fc.fromIndex(t, types.Typ[types.Int])) }

// newObject allocates a fresh zeroed object id.
func (fc *FnCtx) newObject(name string) Term {
	st := fc.cur
	obj := fc.define(fc.freshName("obj_"+name), st.next)
	st.next = fc.define(fc.freshName("next"), Add(st.next, IntLit(1)))
	fc.zeroObject(st, obj)
	fc.commitHeaps()
	return obj
}

// freshBytes allocates a byte slice of the given length with unknown contents.
func (fc *FnCtx) freshBytes(name string, ln Term) Value {
	st := fc.cur
	obj := fc.define(fc.freshName("obj_"+name), st.next)
	st.next = fc.define(fc.freshName("next"), Add(st.next, IntLit(1)))
	st.heap[SBV(8)] = Store(st.heap[SBV(8)], obj, fc.freshConst(name+"_bytes", SArr(SInt, SBV(8))))
	fc.commitHeaps()
	cp := fc.freshConst(name+"_cap", SInt)
	fc.assume(And(Ge(cp, ln), Le(cp, Term{"maxSliceCap", SInt})))
	return SliceV(obj, IntLit(0), ln, cp)
}

// bytes.Buffer layout: buf []byte at cells 0..3, off int at cell 4.
type bufView struct {
	obj, base                   Term
	bobj, boff, blen, bcap, off Term
}

func (fc *FnCtx) bufOf(p Value) bufView {
	st := fc.cur
	b := bufView{obj: p.Obj(), base: p.Off()}
	b.bobj = st.cellRead(SInt, b.obj, b.base)
	b.boff = st.cellRead(SInt, b.obj, offPlus(b.base, 1))
	b.blen = st.cellRead(SInt, b.obj, offPlus(b.base, 2))
	b.bcap = st.cellRead(SInt, b.obj, offPlus(b.base, 3))
	b.off = st.cellRead(SInt, b.obj, offPlus(b.base, 4))
	return b
}

func (b bufView) remaining() Term { return Sub(b.blen, b.off) }

func (fc *FnCtx) bufSetOff(b bufView, off Term) {
	fc.cur.cellWrite(SInt, b.obj, offPlus(b.base, 4), off)
	fc.commitHeaps()
}

// bufInvariant: 0 <= off <= len <= cap (representation invariant of bytes.Buffer).
func (fc *FnCtx) bufInvariant(b bufView) {
	fc.assume(And(Le(IntLit(0), b.off), Le(b.off, b.blen), Le(b.blen, b.bcap), Ge(b.boff, IntLit(0)), Le(b.bcap, Term{"maxSliceCap", SInt}), Lt(b.bobj, fc.cur.next)))
}

// readerBuffer resolves an io.Reader/io.Writer argument to a *bytes.Buffer pointer.
func (fc *FnCtx) readerBuffer(v ssa.Value) (Value, bool) {
	src, ok := fc.ifaceSrc[v]
	if !ok {
		return Value{}, false
	}
	if pt, ok := src.Type().(*types.Pointer); ok {
		if n, ok := pt.Elem().(*types.Named); ok && n.Obj().Name() == "Buffer" && n.Obj().Pkg().Path() == "bytes" {
			return fc.val(src), true
		}
	}
	return Value{}, false
}

func packedSize(t types.Type) int64 {
	switch u := t.Underlying().(type) {
	case *types.Struct:
		var n int64
		for i := 0; i < u.NumFields(); i++ {
			n += packedSize(u.Field(i).Type())
		}
		return n
	case *types.Array:
		return u.Len() * packedSize(u.Elem())
	case *types.Basic:
		if bits, _, ok := basicIntInfo(u); ok {
			return int64(bits / 8)
		}
		if u.Kind() == types.Bool {
			return 1
		}
	}
	return -1
}

func init() {
	reg := func(name string, eff effects, fn libFn) { libModels[name] = libModel{eff, fn} }

	reg("bytes.NewBuffer", allocEff(), func(fc *FnCtx, cc *ssa.CallCommon, args []Value, pos token.Pos, res ssa.Value) Value {
		obj := fc.newObject("buffer")
		s := args[0]
		st := fc.cur
		for i := 0; i < 4; i++ {
			st.cellWrite(SInt, obj, IntLit(int64(i)), s.E[i].T)
		}
		st.cellWrite(SInt, obj, IntLit(4), IntLit(0))
		fc.commitHeaps()
		return PtrV(obj, IntLit(0))
	})
	reg("(*bytes.Buffer).Len", pureEff(), func(fc *FnCtx, cc *ssa.CallCommon, args []Value, pos token.Pos, res ssa.Value) Value {
		fc.nilCheck(args[0], pos, "Buffer.Len")
		b := fc.bufOf(args[0])
		fc.bufInvariant(b)
		return fc.intRes(b.remaining())
	})
	reg("(*bytes.Buffer).Next", bufEff(), func(fc *FnCtx, cc *ssa.CallCommon, args []Value, pos token.Pos, res ssa.Value) Value {
		fc.nilCheck(args[0], pos, "Buffer.Next")
		b := fc.bufOf(args[0])
		fc.bufInvariant(b)
		n := fc.toIndex(args[1].T, types.Typ[types.Int])
		fc.oblige("pre", "bytes.Buffer.Next: n >= 0 ("+fc.desc(pos, "Next")+")", pos, Ge(n, IntLit(0)))
		m := b.remaining()
		k := fc.define(fc.freshName("nextn"), Ite(Gt(n, m), m, n))
		fc.bufSetOff(b, Add(b.off, k))
		return SliceV(b.bobj, Add(b.boff, b.off), k, Sub(b.bcap, b.off))
	})
	reg("(*bytes.Buffer).Bytes", pureEff(), func(fc *FnCtx, cc *ssa.CallCommon, args []Value, pos token.Pos, res ssa.Value) Value {
		fc.nilCheck(args[0], pos, "Buffer.Bytes")
		b := fc.bufOf(args[0])
		fc.bufInvariant(b)
		return SliceV(b.bobj, Add(b.boff, b.off), b.remaining(), Sub(b.bcap, b.off))
	})
	reg("(*bytes.Buffer).String", pureEff(), func(fc *FnCtx, cc *ssa.CallCommon, args []Value, pos token.Pos, res ssa.Value) Value {
		b := fc.bufOf(args[0])
		fc.bufInvariant(b)
		s := mk(SStr, "s_frombytes", Select(fc.cur.heap[SBV(8)], b.bobj), Add(b.boff, b.off), b.remaining())
		fc.assume(Eq(strLen(s), b.remaining()))
		return Leaf(s)
	})
	bufWrite := func(fc *FnCtx, p Value, n Term, src *Value) {
		// buf = append(buf, n bytes): new backing array (conservatively always fresh), contents:
		// old bytes preserved, appended bytes = src (or unknown)
		st := fc.cur
		b := fc.bufOf(p)
		fc.bufInvariant(b)
		obj := fc.define(fc.freshName("obj_bufgrow"), st.next)
		st.next = fc.define(fc.freshName("next"), Add(st.next, IntLit(1)))
		inner := fc.freshConst("bufbytes", SArr(SInt, SBV(8)))
		h := st.heap[SBV(8)]
		k := Term{"k!q", SInt}
		a1 := Implies(And(Le(IntLit(0), k), Lt(k, b.blen)), Eq(Select(inner, k), Select(Select(h, b.bobj), Add(b.boff, k))))
		fc.assume(Term{fmt.Sprintf("(forall ((k!q Int)) %s)", a1.S), SBool})
		if src != nil && src.K == KSlice {
			a2 := Implies(And(Le(IntLit(0), k), Lt(k, n)), Eq(Select(inner, Add(b.blen, k)), Select(Select(h, src.Obj()), Add(src.Off(), k))))
			fc.assume(Term{fmt.Sprintf("(forall ((k!q Int)) %s)", a2.S), SBool})
		}
		st.heap[SBV(8)] = Store(h, obj, inner)
		newLen := Add(b.blen, n)
		cp := fc.freshConst("bufcap", SInt)
		fc.assume(And(Ge(cp, newLen), Le(cp, Term{"maxSliceCap", SInt})))
		st.cellWrite(SInt, b.obj, b.base, obj)
		st.cellWrite(SInt, b.obj, offPlus(b.base, 1), IntLit(0))
		st.cellWrite(SInt, b.obj, offPlus(b.base, 2), newLen)
		st.cellWrite(SInt, b.obj, offPlus(b.base, 3), cp)
		fc.commitHeaps()
	}
	reg("(*bytes.Buffer).Write", bufEff(), func(fc *FnCtx, cc *ssa.CallCommon, args []Value, pos token.Pos, res ssa.Value) Value {
		fc.nilCheck(args[0], pos, "Buffer.Write")
		bufWrite(fc, args[0], args[1].Len(), &args[1])
		return retTuple(fc.intRes(args[1].Len()), nilErr())
	})
	reg("encoding/binary.Read", bufEff(), func(fc *FnCtx, cc *ssa.CallCommon, args []Value, pos token.Pos, res ssa.Value) Value {
		st := fc.cur
		target := fc.ifaceSrc[cc.Args[2]]
		var size Term
		havocTarget := func() {}
		if target != nil {
			tv := fc.val(target)
			switch tt := target.Type().Underlying().(type) {
			case *types.Pointer:
				if ps := packedSize(tt.Elem()); ps >= 0 && tv.K == KPtr {
					size = IntLit(ps)
					havocTarget = func() {
						nv := fc.freshValue("binread", shapeOf(tt.Elem(), fc.mode))
						for _, f := range fc.typeFacts(tt.Elem(), nv, st.next) {
							fc.assume(f)
						}
						fc.store(st, tt.Elem(), tv.Obj(), tv.Off(), nv)
						fc.commitHeaps()
					}
				}
			case *types.Slice:
				if ps := packedSize(tt.Elem()); ps >= 0 && tv.K == KSlice {
					size = Mul(tv.Len(), IntLit(ps))
					havocTarget = func() {
						for _, hs := range heapSorts {
							sorts := map[Sort]bool{}
							fc.sortsOfType(tt.Elem(), sorts)
							if sorts[hs] {
								st.heap[hs] = Store(st.heap[hs], tv.Obj(), fc.freshConst("binreadarr", SArr(SInt, hs)))
							}
						}
						fc.commitHeaps()
					}
				}
			}
		}
		bp, isBuf := fc.readerBuffer(cc.Args[0])
		if size.IsZero() || !isBuf {
			fc.notes = append(fc.notes, "binary.Read with unmodelled reader/target: full havoc")
			fc.havocAll("binary.Read")
			return fc.freshErr("binreaderr")
		}
		b := fc.bufOf(bp)
		fc.bufInvariant(b)
		ok := fc.define(fc.freshName("binreadok"), Ge(b.remaining(), size))
		err := fc.freshErr("binreaderr")
		fc.assume(Eq(Eq(err.E[0].T, IntLit(0)), ok))
		fc.bufSetOff(b, Ite(ok, Add(b.off, size), b.blen))
		havocTarget()
		return err
	})
	reg("encoding/binary.Write", bufEff(), func(fc *FnCtx, cc *ssa.CallCommon, args []Value, pos token.Pos, res ssa.Value) Value {
		target := fc.ifaceSrc[cc.Args[2]]
		var size Term
		if target != nil {
			tv := fc.val(target)
			switch tt := target.Type().Underlying().(type) {
			case *types.Slice:
				if ps := packedSize(tt.Elem()); ps >= 0 && tv.K == KSlice {
					size = Mul(tv.Len(), IntLit(ps))
				}
			default:
				if ps := packedSize(target.Type()); ps >= 0 {
					size = IntLit(ps)
				}
			}
		}
		bp, isBuf := fc.readerBuffer(cc.Args[0])
		if size.IsZero() || !isBuf {
			fc.notes = append(fc.notes, "binary.Write with unmodelled writer/data: full havoc")
			fc.havocAll("binary.Write")
			return fc.freshErr("binwriteerr")
		}
		// fixed-size data into a bytes.Buffer never fails
		var src *Value
		if target != nil {
			if tv := fc.val(target); tv.K == KSlice && isByteSlice(target.Type().Underlying()) {
				src = &tv
			}
		}
		bufWrite(fc, bp, size, src)
		return nilErr()
	})
	le := func(name string, nbytes int, put bool) {
		full := "(encoding/binary.littleEndian)." + name
		reg(full, func() effects {
			if put {
				e := pureEff()
				e.sorts[SBV(8)] = true
				return e
			}
			return pureEff()
		}(), func(fc *FnCtx, cc *ssa.CallCommon, args []Value, pos token.Pos, res ssa.Value) Value {
			b := args[1]
			fc.oblige("bounds", "binary.LittleEndian."+name+": len(b) >= "+fmt.Sprint(nbytes)+" ("+fc.desc(pos, name)+")", pos, Ge(b.Len(), IntLit(int64(nbytes))))
			st := fc.cur
			if put {
				v := args[2].T
				w := nbytes * 8
				if v.Sort == SInt {
					v = int2bv(v, w)
				}
				for i := 0; i < nbytes; i++ {
					st.cellWrite(SBV(8), b.Obj(), offPlus(b.Off(), int64(i)), extract(v, 8*i+7, 8*i))
				}
				fc.commitHeaps()
				return Value{K: KTuple}
			}
			var parts []Term
			for i := nbytes - 1; i >= 0; i-- {
				parts = append(parts, st.cellRead(SBV(8), b.Obj(), offPlus(b.Off(), int64(i))))
			}
			r := mk(SBV(nbytes*8), "concat", parts...)
			if intSort(nbytes*8, fc.mode) == SInt {
				return Leaf(ubv2int(r))
			}
			return Leaf(r)
		})
	}
	le("Uint16", 2, false)
	le("Uint32", 4, false)
	le("Uint64", 8, false)
	le("PutUint16", 2, true)
	le("PutUint32", 4, true)
	le("PutUint64", 8, true)

	reg("crypto/md5.Sum", pureEff(), func(fc *FnCtx, cc *ssa.CallCommon, args []Value, pos token.Pos, res ssa.Value) Value {
		return Leaf(mk(SBV(128), "md5", bytesOf(fc.cur, args[0])))
	})
	reg("hash/crc32.ChecksumIEEE", pureEff(), func(fc *FnCtx, cc *ssa.CallCommon, args []Value, pos token.Pos, res ssa.Value) Value {
		return Leaf(mk(SBV(32), "crc32", bytesOf(fc.cur, args[0])))
	})
	reg("errors.New", allocEff(), func(fc *FnCtx, cc *ssa.CallCommon, args []Value, pos token.Pos, res ssa.Value) Value {
		obj := fc.newObject("err")
		return IfaceV(IntLit(fc.eng.typeIDByName("*errors.errorString")), mk(SInt, "box_ptr", obj, IntLit(0)))
	})
	reg("fmt.Errorf", allocEff(), func(fc *FnCtx, cc *ssa.CallCommon, args []Value, pos token.Pos, res ssa.Value) Value {
		obj := fc.newObject("err")
		return IfaceV(IntLit(fc.eng.typeIDByName("*fmt.wrapError")), mk(SInt, "box_ptr", obj, IntLit(0)))
	})
	reg("fmt.Sprintf", pureEff(), func(fc *FnCtx, cc *ssa.CallCommon, args []Value, pos token.Pos, res ssa.Value) Value {
		return fc.freshStr("sprintf")
	})
	for _, n := range []string{"fmt.Printf", "fmt.Println", "fmt.Print"} {
		reg(n, pureEff(), func(fc *FnCtx, cc *ssa.CallCommon, args []Value, pos token.Pos, res ssa.Value) Value {
			return retTuple(Leaf(fc.freshConst("printn", intSort(64, fc.mode))), fc.freshErr("printerr"))
		})
	}
	reg("reflect.TypeOf", pureEff(), func(fc *FnCtx, cc *ssa.CallCommon, args []Value, pos token.Pos, res ssa.Value) Value {
		src := fc.ifaceSrc[cc.Args[0]]
		if src == nil {
			return IfaceV(IntLit(fc.eng.typeIDByName("*reflect.rtype")), fc.freshConst("rtype", SInt))
		}
		return IfaceV(IntLit(fc.eng.typeIDByName("*reflect.rtype")), IntLit(fc.eng.sizeofType(src.Type())))
	})
	libIfaceModels["Type.Size"] = func(fc *FnCtx, cc *ssa.CallCommon, args []Value, pos token.Pos, res ssa.Value) Value {
		fc.usedAssumed["lib:reflect.Type.Size == unsafe.Sizeof (gc/amd64 layout)"] = true
		return Leaf(fc.fromIndex(args[0].E[1].T, types.Typ[types.Uintptr]))
	}
	reg("reflect.DeepEqual", pureEff(), func(fc *FnCtx, cc *ssa.CallCommon, args []Value, pos token.Pos, res ssa.Value) Value {
		return Leaf(fc.freshConst("deepeq", SBool))
	})
	reg("os.IsNotExist", pureEff(), func(fc *FnCtx, cc *ssa.CallCommon, args []Value, pos token.Pos, res ssa.Value) Value {
		return Leaf(mk(SBool, "isNotExist", args[0].E[0].T, args[0].E[1].T))
	})
	// path / filepath: lexical functions, uninterpreted with the consequences gopar relies on
	str1 := func(name, fnName string) {
		reg(name, pureEff(), func(fc *FnCtx, cc *ssa.CallCommon, args []Value, pos token.Pos, res ssa.Value) Value {
			return Leaf(mk(SStr, fnName, args[0].T))
		})
	}
	str1("path.Ext", "p_ext")
	str1("path/filepath.Ext", "p_ext")
	str1("path.Clean", "p_clean")
	str1("path/filepath.Clean", "p_clean")
	str1("path/filepath.Dir", "fp_dir")
	str1("path.Dir", "fp_dir")
	str1("path/filepath.Base", "fp_base")
	str1("path.Base", "fp_base")
	str1("strings.ToLower", "s_lower")
	reg("path.IsAbs", pureEff(), func(fc *FnCtx, cc *ssa.CallCommon, args []Value, pos token.Pos, res ssa.Value) Value {
		return Leaf(mk(SBool, "p_isabs", args[0].T))
	})
	reg("path/filepath.IsAbs", pureEff(), func(fc *FnCtx, cc *ssa.CallCommon, args []Value, pos token.Pos, res ssa.Value) Value {
		return Leaf(mk(SBool, "fp_isabs", args[0].T))
	})
	reg("path/filepath.Join", pureEff(), func(fc *FnCtx, cc *ssa.CallCommon, args []Value, pos token.Pos, res ssa.Value) Value {
		// variadic: elements are packed into a slice; model the common 2-element case through the heap
		s := args[0]
		if s.K == KSlice {
			a := fc.cur.cellRead(SStr, s.Obj(), s.Off())
			b := fc.cur.cellRead(SStr, s.Obj(), offPlus(s.Off(), 1))
			r := mk(SStr, "fp_join", a, b)
			return Leaf(Ite(Eq(s.Len(), IntLit(2)), r, fc.freshStr("join").T))
		}
		return fc.freshStr("join")
	})
	reg("path/filepath.Abs", pureEff(), func(fc *FnCtx, cc *ssa.CallCommon, args []Value, pos token.Pos, res ssa.Value) Value {
		return retTuple(Leaf(mk(SStr, "fp_abs", args[0].T)), fc.freshErr("abserr"))
	})
	reg("path/filepath.Rel", pureEff(), func(fc *FnCtx, cc *ssa.CallCommon, args []Value, pos token.Pos, res ssa.Value) Value {
		r := mk(SStr, "fp_rel", args[0].T, args[1].T)
		err := fc.freshErr("relerr")
		fc.assume(Eq(Eq(err.E[0].T, IntLit(0)), mk(SBool, "fp_relok", args[0].T, args[1].T)))
		// Rel returns a Clean()ed, hence non-empty, path on success
		fc.assume(Implies(Eq(err.E[0].T, IntLit(0)), Ge(strLen(r), IntLit(1))))
		return retTuple(Leaf(r), err)
	})
	reg("io/ioutil.ReadAll", bufEff(), func(fc *FnCtx, cc *ssa.CallCommon, args []Value, pos token.Pos, res ssa.Value) Value {
		bp, isBuf := fc.readerBuffer(cc.Args[0])
		if !isBuf {
			fc.havocAll("ReadAll")
			return fc.freshResult(cc.Signature().Results())
		}
		b := fc.bufOf(bp)
		fc.bufInvariant(b)
		n := fc.define(fc.freshName("readall"), b.remaining())
		out := fc.freshBytes("readall", n)
		fc.bufSetOff(b, b.blen)
		return retTuple(out, nilErr())
	})
	reg("unicode/utf8.EncodeRune", func() effects { e := pureEff(); e.sorts[SBV(8)] = true; return e }(), func(fc *FnCtx, cc *ssa.CallCommon, args []Value, pos token.Pos, res ssa.Value) Value {
		p := args[0]
		fc.oblige("bounds", "utf8.EncodeRune: len(p) >= 4 ("+fc.desc(pos, "EncodeRune")+")", pos, Ge(p.Len(), IntLit(4)))
		st := fc.cur
		inner := fc.freshConst("runebytes", SArr(SInt, SBV(8)))
		h := st.heap[SBV(8)]
		k := Term{"k!q", SInt}
		a := Implies(Or(Lt(k, p.Off()), Ge(k, Add(p.Off(), IntLit(4)))), Eq(Select(inner, k), Select(Select(h, p.Obj()), k)))
		fc.assume(Term{fmt.Sprintf("(forall ((k!q Int)) %s)", a.S), SBool})
		st.heap[SBV(8)] = Store(h, p.Obj(), inner)
		fc.commitHeaps()
		n := fc.freshConst("runelen", SInt)
		fc.assume(And(Le(IntLit(1), n), Le(n, IntLit(4))))
		return fc.intRes(n)
	})
	reg("unicode/utf16.Decode", allocEff(), func(fc *FnCtx, cc *ssa.CallCommon, args []Value, pos token.Pos, res ssa.Value) Value {
		n := fc.freshConst("u16declen", SInt)
		fc.assume(And(Le(IntLit(0), n), Le(n, args[0].Len())))
		st := fc.cur
		obj := fc.define(fc.freshName("obj_runes"), st.next)
		st.next = fc.define(fc.freshName("next"), Add(st.next, IntLit(1)))
		st.heap[SBV(32)] = Store(st.heap[SBV(32)], obj, fc.freshConst("runes", SArr(SInt, SBV(32))))
		fc.commitHeaps()
		return SliceV(obj, IntLit(0), n, n)
	})
	reg("unicode/utf16.Encode", allocEff(), func(fc *FnCtx, cc *ssa.CallCommon, args []Value, pos token.Pos, res ssa.Value) Value {
		n := fc.freshConst("u16enclen", SInt)
		fc.assume(And(Le(args[0].Len(), n), Le(n, Mul(IntLit(2), args[0].Len()))))
		st := fc.cur
		obj := fc.define(fc.freshName("obj_u16"), st.next)
		st.next = fc.define(fc.freshName("next"), Add(st.next, IntLit(1)))
		st.heap[SBV(16)] = Store(st.heap[SBV(16)], obj, fc.freshConst("u16s", SArr(SInt, SBV(16))))
		fc.commitHeaps()
		return SliceV(obj, IntLit(0), n, n)
	})
	reg("sort.SliceIsSorted", pureEff(), func(fc *FnCtx, cc *ssa.CallCommon, args []Value, pos token.Pos, res ssa.Value) Value {
		return Leaf(fc.freshConst("issorted", SBool))
	})
	sortHavoc := func(fc *FnCtx, cc *ssa.CallCommon, args []Value, pos token.Pos, res ssa.Value) Value {
		// elements are permuted in place: contents of the backing array become unknown
		src := fc.ifaceSrc[cc.Args[0]]
		var sv Value
		var et types.Type
		if src != nil {
			sv = fc.val(src)
			if st, ok := src.Type().Underlying().(*types.Slice); ok {
				et = st.Elem()
			}
		} else if args[0].K == KSlice {
			sv = args[0]
			if st, ok := cc.Args[0].Type().Underlying().(*types.Slice); ok {
				et = st.Elem()
			}
		}
		if sv.K != KSlice || et == nil {
			fc.havocAll("sort")
			return Value{K: KTuple}
		}
		sorts := map[Sort]bool{}
		fc.sortsOfType(et, sorts)
		st := fc.cur
		for _, hs := range heapSorts {
			if sorts[hs] {
				st.heap[hs] = Store(st.heap[hs], sv.Obj(), fc.freshConst("sorted", SArr(SInt, hs)))
			}
		}
		fc.commitHeaps()
		return Value{K: KTuple}
	}
	reg("sort.Slice", allocEff(), sortHavoc)
	reg("sort.Ints", allocEff(), sortHavoc)
	reg("io/ioutil.WriteFile", pureEff(), func(fc *FnCtx, cc *ssa.CallCommon, args []Value, pos token.Pos, res ssa.Value) Value {
		return fc.freshErr("writefileerr")
	})
	reg("io/ioutil.ReadFile", allocEff(), func(fc *FnCtx, cc *ssa.CallCommon, args []Value, pos token.Pos, res ssa.Value) Value {
		n := fc.freshConst("readfilelen", SInt)
		fc.assume(And(Ge(n, IntLit(0)), Le(n, Term{"maxSliceCap", SInt})))
		data := fc.freshBytes("readfile", n)
		return retTuple(data, fc.freshErr("readfileerr"))
	})
	reg("os.Exit", pureEff(), func(fc *FnCtx, cc *ssa.CallCommon, args []Value, pos token.Pos, res ssa.Value) Value {
		// the process ends here: nothing after this call is reachable
		fc.exitReach = append(fc.exitReach, fc.reach[fc.curBlk])
		fc.seq++
		fc.facts = append(fc.facts, Fact{blk: fc.curBlk, seq: fc.seq, t: TFalse, isExit: true})
		return Value{K: KTuple}
	})
	// sync.WaitGroup: the counter is not modelled; the fork-join shape (Add(n) before the
	// spawning loop, one deferred Done per worker, Wait after the loop) is checked
	// syntactically by forkJoinShape, and under that shape the three calls have no effect
	// on the modelled state.
	for _, n := range []string{"Add", "Done", "Wait"} {
		isWait := n == "Wait"
		reg("(*sync.WaitGroup)."+n, pureEff(), func(fc *FnCtx, cc *ssa.CallCommon, args []Value, pos token.Pos, res ssa.Value) Value {
			if isWait && fc.fjPhi != nil {
				env := fc.newEnv(fc.cur)
				if sv, err := fc.specExpr(env, fc.fjHi); err == nil {
					if hi, ok := fc.toIntTerm(env.coerce(sv, specIntType)); ok {
						fc.oblige("forkjoin", "every worker index below hi has been spawned when Wait is reached", pos,
							Ge(fc.toIndex(fc.val(fc.fjPhi).T, fc.fjPhi.Type()), hi))
					}
				}
			}
			return Value{K: KTuple}
		})
	}
	reg("runtime/pprof.StopCPUProfile", pureEff(), func(fc *FnCtx, cc *ssa.CallCommon, args []Value, pos token.Pos, res ssa.Value) Value {
		return Value{K: KTuple}
	})
	reg("runtime.GOMAXPROCS", pureEff(), func(fc *FnCtx, cc *ssa.CallCommon, args []Value, pos token.Pos, res ssa.Value) Value {
		n := fc.freshConst("gomaxprocs", SInt)
		fc.assume(And(Ge(n, IntLit(1)), Le(n, IntLit(1<<20))))
		return fc.intRes(n)
	})
}

func init() {
	reg := func(name string, eff effects, fn libFn) { libModels[name] = libModel{eff, fn} }
	// klauspost/reedsolomon (assumed contract A-rs8): New validates its arguments and returns an
	// error instead of panicking; Encode/Verify/Reconstruct never panic on a shard list of the
	// right length, write only into the shard list and its shards, and report problems as errors.
	reg("github.com/klauspost/reedsolomon.New", allocEff(), func(fc *FnCtx, cc *ssa.CallCommon, args []Value, pos token.Pos, res ssa.Value) Value {
		enc := IfaceV(fc.freshConst("rs.typ", SInt), fc.freshConst("rs.val", SInt))
		err := fc.freshErr("rsnewerr")
		fc.assume(Implies(Eq(err.E[0].T, IntLit(0)), Not(Eq(enc.E[0].T, IntLit(0)))))
		fc.assume(Ge(enc.E[0].T, IntLit(0)))
		return retTuple(enc, err)
	})
	reg("github.com/klauspost/reedsolomon.WithPAR1Matrix", allocEff(), func(fc *FnCtx, cc *ssa.CallCommon, args []Value, pos token.Pos, res ssa.Value) Value {
		return Leaf(fc.freshConst("rsopt", SInt))
	})
	rsShards := func(name string, writes bool, results func(fc *FnCtx) Value) {
		libIfaceModels["Encoder."+name] = func(fc *FnCtx, cc *ssa.CallCommon, args []Value, pos token.Pos, res ssa.Value) Value {
			fc.usedAssumed["lib:klauspost/reedsolomon Encoder."+name+" (A-rs8: GF(2^8) PAR1 coder; no panic, writes only the shards)"] = true
			sh := args[1]
			if writes && sh.K == KSlice {
				st := fc.cur
				// shard headers and shard bytes may change
				st.heap[SInt] = Store(st.heap[SInt], sh.Obj(), fc.freshConst("rsshards", SArr(SInt, SInt)))
				st.heap[SBV(8)] = fc.freshConst("rsbytes", heapSort(SBV(8)))
				nn := fc.freshConst("next_rs", SInt)
				fc.assume(Ge(nn, st.next))
				st.next = nn
				fc.commitHeaps()
			}
			return results(fc)
		}
	}
	rsShards("Reconstruct", true, func(fc *FnCtx) Value { return fc.freshErr("rserr") })
	rsShards("Encode", true, func(fc *FnCtx) Value { return fc.freshErr("rserr") })
	rsShards("Verify", false, func(fc *FnCtx) Value { return retTuple(Leaf(fc.freshConst("rsok", SBool)), fc.freshErr("rserr")) })
}

func (e *Engine) typeIDByName(name string) int64 {
	if id, ok := e.typeIDs[name]; ok {
		return id
	}
	id := e.stableID(name, e.typeIDs)
	e.typeIDs[name] = id
	return id
}

// stableID: an identifier that depends only on the name (FNV-1a, linear probing on the rare
// collision), so that a query does not depend on the order in which the engine met the names.
func (e *Engine) stableID(name string, taken map[string]int64) int64 {
	h := uint32(2166136261)
	for i := 0; i < len(name); i++ {
		h ^= uint32(name[i])
		h *= 16777619
	}
	id := int64(h%1000000000) + 1000
	for {
		clash := id == 999999
		for _, v := range taken {
			if v == id {
				clash = true
			}
		}
		if !clash {
			return id
		}
		id++
	}
}
