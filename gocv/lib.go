package main

import (
	"go/token"

	"golang.org/x/tools/go/ssa"
)

type libFn func(fc *FnCtx, cc *ssa.CallCommon, args []Value, pos token.Pos, res ssa.Value) Value

type libModel struct {
	eff effects
	fn  libFn
}

var libModels = map[string]libModel{}
var libIfaceModels = map[string]libFn{}

func pureEff() effects {
	return effects{sorts: map[Sort]bool{}, ghosts: map[string]bool{}}
}

func allocEff() effects {
	e := pureEff()
	e.allocs = true
	return e
}

func (e *Engine) extraPrelude() string { return "" }
