package main

import (
	"flag"
	"go/types"
	"fmt"
	"os"
	"sort"
	"strings"
)

func main() {
	if len(os.Args) < 2 {
		fmt.Println("usage: gocv <check|dump|list> ...")
		os.Exit(2)
	}
	switch os.Args[1] {
	case "dump":
		fs := flag.NewFlagSet("dump", flag.ExitOnError)
		fn := fs.String("func", "", "pkg::relname")
		ob := fs.String("ob", "", "substring of obligation name to print query for")
		repo := fs.String("repo", "/repo", "repository")
		solve := fs.Bool("solve", false, "solve obligations")
		t1 := fs.Int("t1", 3, "first-stage timeout")
		t2 := fs.Int("t2", 10, "second-stage timeout")
		fs.Parse(os.Args[2:])
		e, err := newEngine(*repo)
		if err != nil {
			fmt.Println("load error:", err)
			os.Exit(2)
		}
		for _, er := range e.contracts.Errors {
			fmt.Println("contract error:", er)
		}
		for _, l := range e.contracts.Lemmas {
			if !strings.Contains(l.Pkg+"::lemma:"+l.Name, *fn) {
				continue
			}
			o, err := e.lemmaObligation(l)
			if err != nil {
				fmt.Printf("== lemma %s: ERROR %v\n", l.Name, err)
				continue
			}
			if *solve {
				e.solveAll([]*Oblig{o}, "/tmp/gocv_dump", *t1, *t2, 16)
			}
			fmt.Printf("== lemma %s: %-9s %-7s %6.2fs\n", l.Name, o.Status, o.Solver, o.Secs)
			if *ob != "" && strings.Contains(o.Name, *ob) {
				fmt.Println(o.fc.query(o))
			}
		}
		defer func() {
			if os.Getenv("GOCV_TYPEIDS") != "" {
				if sp := e.spkgs["github.com/akalin/gopar/par2"]; sp != nil {
					if tn := sp.Pkg.Scope().Lookup("mainPacket"); tn != nil {
						fmt.Println("containers(*mainPacket):", debugOtype(e, types.NewPointer(tn.Type())))
					}
				}
				for k, v := range e.typeIDs {
					fmt.Println("typeid", v, k)
				}
			}
		}()
		var keys []string
		for k := range e.funcs {
			if strings.Contains(k, *fn) {
				keys = append(keys, k)
			}
		}
		sort.Strings(keys)
		for _, k := range keys {
			f := e.funcs[k]
			if len(f.Blocks) == 0 {
				continue
			}
			fc := e.newFnCtx(f)
			fc.translate()
			fmt.Printf("== %s mode=%s obligations=%d unbound=%v subset=%v notes=%v\n", k, fc.mode, len(fc.obligs), fc.unbound, fc.subset, fc.notes)
			if *solve {
				e.solveAll(fc.obligs, "/tmp/gocv_dump", *t1, *t2, 16)
			}
			for _, o := range fc.obligs {
				fmt.Printf("  %-9s %-7s %6.2fs %s  [%s]\n", o.Status, o.Solver, o.Secs, o.Name, o.Pos)
				if *ob != "" && strings.Contains(o.Name, *ob) {
					fmt.Println(fc.query(o))
					if o.Status == "refuted" {
						fmt.Println(o.Model)
					}
				}
			}
		}
	default:
		runCheck(os.Args[1:])
	}
}

