package main

import (
	"fmt"
	"go/types"
	"sort"
)

// heapSorts is the fixed set of leaf sorts that have a heap.
var heapSorts = []Sort{SBool, SBV(8), SBV(16), SBV(32), SBV(64), SInt, SStr, "F64"}

func heapSort(s Sort) Sort { return SArr(SInt, SArr(SInt, s)) }

// State is the symbolic machine state at a program point.
type State struct {
	heap  map[Sort]Term // leaf sort -> heap term
	next  Term          // allocation counter (objects >= next are unallocated)
	mdom  Term          // map domains: obj -> slot -> Bool
	mlen  Term          // map lengths: obj -> Int
	ghost map[string]Term
	fc    *FnCtx // for naming intermediate heap terms
}

func (s *State) clone() *State {
	n := &State{heap: map[Sort]Term{}, next: s.next, mdom: s.mdom, mlen: s.mlen, ghost: map[string]Term{}, fc: s.fc}
	for k, v := range s.heap {
		n.heap[k] = v
	}
	for k, v := range s.ghost {
		n.ghost[k] = v
	}
	return n
}

// comps lists the state components in a stable order.
func (s *State) comps() []string {
	var out []string
	for _, hs := range heapSorts {
		out = append(out, "H:"+string(hs))
	}
	out = append(out, "next", "mdom", "mlen")
	var gs []string
	for g := range s.ghost {
		gs = append(gs, g)
	}
	sort.Strings(gs)
	for _, g := range gs {
		out = append(out, "G:"+g)
	}
	return out
}

func (s *State) get(c string) Term {
	switch {
	case c == "next":
		return s.next
	case c == "mdom":
		return s.mdom
	case c == "mlen":
		return s.mlen
	case c[:2] == "H:":
		return s.heap[Sort(c[2:])]
	case c[:2] == "G:":
		return s.ghost[c[2:]]
	}
	panic("bad state comp " + c)
}

func (s *State) set(c string, t Term) {
	switch {
	case c == "next":
		s.next = t
	case c == "mdom":
		s.mdom = t
	case c == "mlen":
		s.mlen = t
	case c[:2] == "H:":
		s.heap[Sort(c[2:])] = t
	case c[:2] == "G:":
		s.ghost[c[2:]] = t
	default:
		panic("bad state comp " + c)
	}
}

func compTag(c string) string {
	switch {
	case c[:2] == "H:":
		return "H_" + sortTag(Sort(c[2:]))
	case c[:2] == "G:":
		return "G_" + c[2:]
	}
	return c
}

// ---- memory access -------------------------------------------------

// cellRead reads one leaf cell.
func (s *State) cellRead(sortOf Sort, obj, off Term) Term {
	h, ok := s.heap[sortOf]
	if !ok {
		panic(fmt.Sprintf("no heap for sort %s", sortOf))
	}
	return Select(Select(h, obj), off)
}

func (s *State) cellWrite(sortOf Sort, obj, off, v Term) {
	h, ok := s.heap[sortOf]
	if !ok {
		panic(fmt.Sprintf("no heap for sort %s", sortOf))
	}
	if len(h.S) > 40 && s.fc != nil && !s.fc.pureMode {
		h = s.fc.define(s.fc.freshName("H_"+sortTag(sortOf)), h)
	}
	s.heap[sortOf] = Store(h, obj, Store(Select(h, obj), off, v))
}

func offPlus(off Term, k int64) Term {
	if k == 0 {
		return off
	}
	return Add(off, IntLit(k))
}

// frozenState is the immutable post-init content of frozen globals.
var frozenState = func() *State {
	s := &State{heap: map[Sort]Term{}, ghost: map[string]Term{}}
	for _, hs := range heapSorts {
		s.heap[hs] = Term{"FG_" + sortTag(hs), heapSort(hs)}
	}
	s.next = Term{"FG_next", SInt}
	s.mdom = Term{"FG_mdom", SArr(SInt, SArr(SInt, SBool))}
	s.mlen = Term{"FG_mlen", SArr(SInt, SInt)}
	return s
}()

// load reads a value of Go type t at (obj, off).
func (fc *FnCtx) load(s *State, t types.Type, obj, off Term) Value {
	if !fc.initPhase && fc.eng.frozenIDs[obj.S] {
		s = frozenState
	}
	mode := fc.mode
	switch u := t.Underlying().(type) {
	case *types.Pointer:
		return PtrV(s.cellRead(SInt, obj, off), s.cellRead(SInt, obj, offPlus(off, 1)))
	case *types.Slice:
		return SliceV(s.cellRead(SInt, obj, off), s.cellRead(SInt, obj, offPlus(off, 1)),
			s.cellRead(SInt, obj, offPlus(off, 2)), s.cellRead(SInt, obj, offPlus(off, 3)))
	case *types.Interface:
		return IfaceV(s.cellRead(SInt, obj, off), s.cellRead(SInt, obj, offPlus(off, 1)))
	case *types.Struct:
		v := Value{K: KStruct}
		var k int64
		for i := 0; i < u.NumFields(); i++ {
			ft := u.Field(i).Type()
			v.E = append(v.E, fc.load(s, ft, obj, offPlus(off, k)))
			k += cellsOf(ft)
		}
		return v
	case *types.Array:
		if n, ok := isSmallByteArray(t); ok {
			// little-endian concat: byte 0 is the least significant
			var parts []Term
			for i := n - 1; i >= 0; i-- {
				parts = append(parts, s.cellRead(SBV(8), obj, offPlus(off, i)))
			}
			if n == 1 {
				return Leaf(parts[0])
			}
			return Leaf(mk(SBV(int(8*n)), "concat", parts...))
		}
		es := shapeOf(u.Elem(), mode)
		if es.K == KLeaf {
			// whole-array value: fresh array constrained pointwise
			arr := fc.freshConst("arrv", SArr(SInt, es.Sort))
			i := Term{"i!q", SInt}
			c := cellsOf(u.Elem())
			body := Implies(And(Le(IntLit(0), i), Lt(i, IntLit(u.Len()))),
				Eq(Select(arr, i), s.cellRead(es.Sort, obj, Add(off, Mul(i, IntLit(c))))))
			fc.assume(Term{fmt.Sprintf("(forall ((i!q Int)) %s)", body.S), SBool})
			return Leaf(arr)
		}
		return Value{K: KOpaque}
	case *types.Basic:
		if u.Kind() == types.UnsafePointer {
			return PtrV(s.cellRead(SInt, obj, off), s.cellRead(SInt, obj, offPlus(off, 1)))
		}
	}
	sh := shapeOf(t, mode)
	if sh.K == KLeaf {
		if _, ok := s.heap[sh.Sort]; !ok {
			return Leaf(fc.freshConst("ld", sh.Sort))
		}
		return Leaf(s.cellRead(sh.Sort, obj, off))
	}
	return Value{K: KOpaque}
}

// store writes a value of Go type t at (obj, off).
func (fc *FnCtx) store(s *State, t types.Type, obj, off Term, v Value) {
	switch u := t.Underlying().(type) {
	case *types.Pointer:
		if v.K != KPtr {
			fc.havocCells(s, t, obj, off)
			return
		}
		s.cellWrite(SInt, obj, off, v.Obj())
		s.cellWrite(SInt, obj, offPlus(off, 1), v.Off())
		return
	case *types.Slice:
		if v.K != KSlice {
			fc.havocCells(s, t, obj, off)
			return
		}
		for i := 0; i < 4; i++ {
			s.cellWrite(SInt, obj, offPlus(off, int64(i)), v.E[i].T)
		}
		return
	case *types.Interface:
		if v.K != KIface {
			fc.havocCells(s, t, obj, off)
			return
		}
		s.cellWrite(SInt, obj, off, v.E[0].T)
		s.cellWrite(SInt, obj, offPlus(off, 1), v.E[1].T)
		return
	case *types.Struct:
		if v.K != KStruct {
			fc.havocCells(s, t, obj, off)
			return
		}
		var k int64
		for i := 0; i < u.NumFields(); i++ {
			ft := u.Field(i).Type()
			fc.store(s, ft, obj, offPlus(off, k), v.E[i])
			k += cellsOf(ft)
		}
		return
	case *types.Array:
		if n, ok := isSmallByteArray(t); ok && v.K == KLeaf {
			for i := int64(0); i < n; i++ {
				b := v.T
				if n > 1 {
					b = Term{fmt.Sprintf("((_ extract %d %d) %s)", 8*i+7, 8*i, v.T.S), SBV(8)}
				}
				s.cellWrite(SBV(8), obj, offPlus(off, i), b)
			}
			return
		}
		es := shapeOf(u.Elem(), fc.mode)
		if es.K == KLeaf && v.K == KLeaf && v.T.Sort.IsArr() {
			// whole-array store: new inner array agrees with v on [0,n) at stride c
			h := s.heap[es.Sort]
			inner := fc.freshConst("arrst", SArr(SInt, es.Sort))
			c := cellsOf(u.Elem())
			i := Term{"i!q", SInt}
			j := Term{"j!q", SInt}
			lo := off
			hi := Add(off, IntLit(u.Len()*c))
			b1 := Implies(And(Le(IntLit(0), i), Lt(i, IntLit(u.Len()))),
				Eq(Select(inner, Add(off, Mul(i, IntLit(c)))), Select(v.T, i)))
			b2 := Implies(Or(Lt(j, lo), Ge(j, hi)), Eq(Select(inner, j), Select(Select(h, obj), j)))
			fc.assume(Term{fmt.Sprintf("(forall ((i!q Int)) %s)", b1.S), SBool})
			fc.assume(Term{fmt.Sprintf("(forall ((j!q Int)) %s)", b2.S), SBool})
			s.heap[es.Sort] = Store(h, obj, inner)
			return
		}
		fc.havocCells(s, t, obj, off)
		return
	case *types.Basic:
		if u.Kind() == types.UnsafePointer && v.K == KPtr {
			s.cellWrite(SInt, obj, off, v.Obj())
			s.cellWrite(SInt, obj, offPlus(off, 1), v.Off())
			return
		}
	}
	sh := shapeOf(t, fc.mode)
	if sh.K == KLeaf && v.K == KLeaf {
		if _, ok := s.heap[sh.Sort]; ok && v.T.Sort == sh.Sort {
			s.cellWrite(sh.Sort, obj, off, v.T)
			return
		}
	}
	fc.havocCells(s, t, obj, off)
}

// havocCells makes the cells of a t-typed location unknown (whole object, conservatively).
func (fc *FnCtx) havocCells(s *State, t types.Type, obj, off Term) {
	for _, hs := range heapSorts {
		h := s.heap[hs]
		s.heap[hs] = Store(h, obj, fc.freshConst("hv", SArr(SInt, hs)))
	}
}

// zeroValue builds the zero value of a type.
func (fc *FnCtx) zeroValue(t types.Type) Value {
	sh := shapeOf(t, fc.mode)
	return fc.zeroOfShape(sh)
}

func zeroOfSort(s Sort) (Term, bool) {
	switch {
	case s == SBool:
		return TFalse, true
	case s == SInt:
		return IntLit(0), true
	case s.IsBV():
		return BVLit64(0, s.BVWidth()), true
	case s.IsArr():
		z, ok := zeroOfSort(s.ElemSort())
		if !ok {
			return Term{}, false
		}
		return Term{fmt.Sprintf("((as const %s) %s)", s, z.S), s}, true
	}
	return Term{}, false
}

func (fc *FnCtx) zeroOfShape(sh Shape) Value {
	switch sh.K {
	case KLeaf:
		if z, ok := zeroOfSort(sh.Sort); ok {
			return Leaf(z)
		}
		return Leaf(fc.freshConst("z", sh.Sort))
	case KOpaque:
		return Value{K: KOpaque}
	}
	v := Value{K: sh.K}
	for _, e := range sh.E {
		v.E = append(v.E, fc.zeroOfShape(e))
	}
	return v
}

// zeroObject zero-initialises every heap for a fresh object.
func (fc *FnCtx) zeroObject(s *State, obj Term) {
	for _, hs := range heapSorts {
		z, ok := zeroOfSort(hs)
		if !ok {
			continue
		}
		h := s.heap[hs]
		s.heap[hs] = Store(h, obj, Term{fmt.Sprintf("((as const (Array Int %s)) %s)", hs, z.S), SArr(SInt, hs)})
	}
}
