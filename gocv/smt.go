package main

import (
	"fmt"
	"math/big"
	"strings"
)

// Sort is an SMT-LIB sort, kept as its printed form.
type Sort string

const (
	SBool Sort = "Bool"
	SInt  Sort = "Int"
	SStr  Sort = "Str"
)

func SBV(n int) Sort { return Sort(fmt.Sprintf("(_ BitVec %d)", n)) }
func SArr(idx, el Sort) Sort {
	return Sort(fmt.Sprintf("(Array %s %s)", idx, el))
}

func (s Sort) IsBV() bool { return strings.HasPrefix(string(s), "(_ BitVec ") }
func (s Sort) BVWidth() int {
	var n int
	fmt.Sscanf(string(s), "(_ BitVec %d)", &n)
	return n
}
func (s Sort) IsArr() bool { return strings.HasPrefix(string(s), "(Array ") }

// ElemSort returns the element sort of an (Array Int X) sort.
func (s Sort) ElemSort() Sort {
	str := string(s)
	if !strings.HasPrefix(str, "(Array Int ") {
		panic("ElemSort of " + str)
	}
	return Sort(str[len("(Array Int ") : len(str)-1])
}

// Term is an SMT term with its sort.
type Term struct {
	S    string
	Sort Sort
}

func (t Term) String() string { return t.S }
func (t Term) IsZero() bool   { return t.S == "" }

func mk(sort Sort, op string, args ...Term) Term {
	var sb strings.Builder
	sb.WriteByte('(')
	sb.WriteString(op)
	for _, a := range args {
		sb.WriteByte(' ')
		sb.WriteString(a.S)
	}
	sb.WriteByte(')')
	return Term{sb.String(), sort}
}

var (
	TTrue  = Term{"true", SBool}
	TFalse = Term{"false", SBool}
)

func IntLit(n int64) Term {
	if n < 0 {
		return Term{fmt.Sprintf("(- %d)", -n), SInt}
	}
	return Term{fmt.Sprintf("%d", n), SInt}
}

func IntLitBig(n *big.Int) Term {
	if n.Sign() < 0 {
		return Term{fmt.Sprintf("(- %s)", new(big.Int).Neg(n).String()), SInt}
	}
	return Term{n.String(), SInt}
}

func BVLit(n *big.Int, w int) Term {
	m := new(big.Int).Set(n)
	if m.Sign() < 0 || m.BitLen() > w {
		mod := new(big.Int).Lsh(big.NewInt(1), uint(w))
		m.Mod(m, mod)
	}
	return Term{fmt.Sprintf("(_ bv%s %d)", m.String(), w), SBV(w)}
}

func BVLit64(n uint64, w int) Term { return BVLit(new(big.Int).SetUint64(n), w) }

func Not(a Term) Term {
	switch a.S {
	case "true":
		return TFalse
	case "false":
		return TTrue
	}
	if strings.HasPrefix(a.S, "(not ") {
		return Term{a.S[5 : len(a.S)-1], SBool}
	}
	return mk(SBool, "not", a)
}

func And(as ...Term) Term {
	var out []Term
	for _, a := range as {
		if a.S == "true" {
			continue
		}
		if a.S == "false" {
			return TFalse
		}
		out = append(out, a)
	}
	switch len(out) {
	case 0:
		return TTrue
	case 1:
		return out[0]
	}
	return mk(SBool, "and", out...)
}

func Or(as ...Term) Term {
	var out []Term
	for _, a := range as {
		if a.S == "false" {
			continue
		}
		if a.S == "true" {
			return TTrue
		}
		out = append(out, a)
	}
	switch len(out) {
	case 0:
		return TFalse
	case 1:
		return out[0]
	}
	return mk(SBool, "or", out...)
}

func Implies(a, b Term) Term {
	if a.S == "true" {
		return b
	}
	if a.S == "false" || b.S == "true" {
		return TTrue
	}
	return mk(SBool, "=>", a, b)
}

func Eq(a, b Term) Term {
	if a.Sort != b.Sort {
		panic(fmt.Sprintf("Eq sort mismatch: %s:%s vs %s:%s", a.S, a.Sort, b.S, b.Sort))
	}
	if a.S == b.S {
		return TTrue
	}
	return mk(SBool, "=", a, b)
}

func Ite(c, a, b Term) Term {
	if a.Sort != b.Sort {
		panic(fmt.Sprintf("Ite sort mismatch: %s:%s vs %s:%s", a.S, a.Sort, b.S, b.Sort))
	}
	if c.S == "true" {
		return a
	}
	if c.S == "false" {
		return b
	}
	if a.S == b.S {
		return a
	}
	return mk(a.Sort, "ite", c, a, b)
}

func Select(arr, idx Term) Term {
	return mk(arr.Sort.ElemSort(), "select", arr, idx)
}
func Store(arr, idx, v Term) Term { return mk(arr.Sort, "store", arr, idx, v) }

// Integer helpers
func Add(a, b Term) Term {
	if b.S == "0" {
		return a
	}
	if a.S == "0" {
		return b
	}
	return mk(SInt, "+", a, b)
}
func Sub(a, b Term) Term {
	if b.S == "0" {
		return a
	}
	return mk(SInt, "-", a, b)
}
func Mul(a, b Term) Term {
	if a.S == "1" {
		return b
	}
	if b.S == "1" {
		return a
	}
	return mk(SInt, "*", a, b)
}
func Le(a, b Term) Term { return mk(SBool, "<=", a, b) }
func Lt(a, b Term) Term { return mk(SBool, "<", a, b) }
func Ge(a, b Term) Term { return mk(SBool, ">=", a, b) }
func Gt(a, b Term) Term { return mk(SBool, ">", a, b) }

func pow2(n int) *big.Int { return new(big.Int).Lsh(big.NewInt(1), uint(n)) }

// smtName makes an identifier safe for SMT-LIB by quoting.
func smtName(s string) string {
	ok := true
	for _, c := range s {
		if !(c >= 'a' && c <= 'z' || c >= 'A' && c <= 'Z' || c >= '0' && c <= '9' || c == '_' || c == '.' || c == '$' || c == '!') {
			ok = false
			break
		}
	}
	if ok && s != "" && !(s[0] >= '0' && s[0] <= '9') {
		return s
	}
	return "|" + strings.ReplaceAll(s, "|", "!") + "|"
}
