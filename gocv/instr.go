package main

import (
	"fmt"
	"strings"
	"go/ast"
	"go/token"
	"go/types"

	"golang.org/x/tools/go/ssa"
)

func (fc *FnCtx) setVal(v ssa.Value, x Value) {
	fc.vals[v] = fc.defineValue(fc.vname(v), x)
}

func (fc *FnCtx) desc(pos token.Pos, fallback string) string {
	d := fc.posDesc(pos, isExprNode)
	if d == "" {
		return fallback
	}
	return d
}

func (fc *FnCtx) nilCheck(p Value, pos token.Pos, what string) {
	if p.K != KPtr {
		return
	}
	if p.Obj().S[0] == '(' && len(p.Obj().S) > 3 && p.Obj().S[:3] == "(- " {
		return // global
	}
	fc.oblige("nil", fc.desc(pos, what), pos, Not(Eq(p.Obj(), IntLit(0))))
}

func (fc *FnCtx) instr(ins ssa.Instruction) {
	st := fc.cur
	switch x := ins.(type) {
	case *ssa.DebugRef:
		return
	case *ssa.Alloc:
		obj := fc.define(fc.freshName("obj_"+x.Name()), st.next)
		st.next = fc.define(fc.freshName("next"), Add(st.next, IntLit(1)))
		fc.zeroObject(st, obj)
		fc.vals[x] = PtrV(obj, IntLit(0))
		at := x.Type().Underlying().(*types.Pointer).Elem()
		fc.assume(Eq(otypeOf(obj), IntLit(fc.eng.typeIDByName(types.TypeString(at, nil)))))
	case *ssa.BinOp:
		fc.binOpInstr(x)
	case *ssa.UnOp:
		fc.unOpInstr(x)
	case *ssa.Phi:
		return
	case *ssa.Call:
		fc.call(x, x.Common())
	case *ssa.ChangeInterface:
		fc.vals[x] = fc.val(x.X)
	case *ssa.ChangeType:
		fc.vals[x] = fc.val(x.X)
	case *ssa.Convert:
		fc.convert(x)
	case *ssa.MultiConvert:
		fc.setVal(x, fc.freshValue("mconv", shapeOf(x.Type(), fc.mode)))
	case *ssa.Extract:
		t := fc.val(x.Tuple)
		if t.K == KTuple && x.Index < len(t.E) {
			fc.vals[x] = t.E[x.Index]
		} else {
			fc.vals[x] = fc.freshValue("extract", shapeOf(x.Type(), fc.mode))
		}
	case *ssa.Field:
		s := fc.val(x.X)
		if s.K == KStruct && x.Field < len(s.E) {
			fc.vals[x] = s.E[x.Field]
		} else {
			fc.vals[x] = fc.freshValue("field", shapeOf(x.Type(), fc.mode))
		}
	case *ssa.FieldAddr:
		p := fc.val(x.X)
		fc.nilCheck(p, x.Pos(), "fieldaddr "+x.Name())
		stt := x.X.Type().Underlying().(*types.Pointer).Elem().Underlying().(*types.Struct)
		off := fieldCellOffset(stt, x.Field)
		fc.vals[x] = PtrV(p.Obj(), fc.define(fc.freshName("off"), offPlus(p.Off(), off)))
	case *ssa.Index:
		fc.indexValue(x)
	case *ssa.IndexAddr:
		fc.indexAddr(x)
	case *ssa.Slice:
		fc.sliceInstr(x)
	case *ssa.Store:
		p := fc.val(x.Addr)
		fc.nilCheck(p, x.Pos(), "store")
		fc.store(st, x.Val.Type(), p.Obj(), p.Off(), fc.val(x.Val))
		fc.commitHeaps()
	case *ssa.MakeSlice:
		fc.makeSlice(x)
	case *ssa.MakeInterface:
		fc.makeInterface(x)
	case *ssa.MakeClosure:
		fn := x.Fn.(*ssa.Function)
		id := fc.define(fc.freshName("clo"), st.next)
		st.next = fc.define(fc.freshName("next"), Add(st.next, IntLit(1)))
		fc.vals[x] = Leaf(id)
		fc.closures[x] = x
		fc.closureAxiom(x, fn, id)
	case *ssa.MakeMap:
		id := fc.define(fc.freshName("map"), st.next)
		st.next = fc.define(fc.freshName("next"), Add(st.next, IntLit(1)))
		st.mdom = Store(st.mdom, id, Term{"((as const (Array Int Bool)) false)", SArr(SInt, SBool)})
		st.mlen = Store(st.mlen, id, IntLit(0))
		fc.zeroObject(st, id)
		fc.commitHeaps()
		fc.assume(Eq(otypeOf(id), IntLit(fc.eng.typeIDByName(types.TypeString(x.Type(), nil)))))
		fc.vals[x] = Leaf(id)
	case *ssa.MakeChan:
		id := fc.define(fc.freshName("chan"), st.next)
		st.next = fc.define(fc.freshName("next"), Add(st.next, IntLit(1)))
		fc.vals[x] = Leaf(id)
	case *ssa.Lookup:
		fc.lookup(x)
	case *ssa.MapUpdate:
		fc.mapUpdate(x)
	case *ssa.Range:
		// iterator: opaque; a fresh iteration starts with nothing visited
		fc.vals[x] = Leaf(fc.freshConst("iter", SInt))
		fc.ifaceSrc[x] = x.X
		if g, ok := fc.rangeGhost[x]; ok {
			st.ghost[g] = Term{"((as const (Array Int Bool)) false)", SArr(SInt, SBool)}
		}
	case *ssa.Next:
		fc.next(x)
	case *ssa.TypeAssert:
		fc.typeAssert(x)
	case *ssa.If, *ssa.Jump:
		return
	case *ssa.Return:
		fc.ret(x)
	case *ssa.Panic:
		fc.panicInstr(x)
	case *ssa.Defer:
		fc.deferred = append(fc.deferred, x)
	case *ssa.RunDefers:
		fc.runDefers()
	case *ssa.Go:
		fc.goInstr(x)
	case *ssa.Send, *ssa.Select:
		fc.unsupported(fmt.Sprintf("%T", ins))
	case *ssa.SliceToArrayPointer:
		fc.vals[x] = fc.freshValue("s2a", shapeOf(x.Type(), fc.mode))
	default:
		fc.unsupported(fmt.Sprintf("%T", ins))
		if v, ok := ins.(ssa.Value); ok {
			fc.vals[v] = fc.freshValue("unk", shapeOf(v.Type(), fc.mode))
		}
	}
}

// commitHeaps binds large heap terms to names so terms do not grow exponentially.
func (fc *FnCtx) commitHeaps() {
	st := fc.cur
	for _, hs := range heapSorts {
		h := st.heap[hs]
		if len(h.S) > 40 {
			st.heap[hs] = fc.define(fc.freshName("H_"+sortTag(hs)), h)
		}
	}
	if len(st.mdom.S) > 40 {
		st.mdom = fc.define(fc.freshName("mdom"), st.mdom)
	}
	if len(st.mlen.S) > 40 {
		st.mlen = fc.define(fc.freshName("mlen"), st.mlen)
	}
}

func (fc *FnCtx) binOpInstr(x *ssa.BinOp) {
	a, b := fc.val(x.X), fc.val(x.Y)
	t := x.X.Type()
	// comparisons of aggregates
	if x.Op == token.EQL || x.Op == token.NEQ {
		if a.K != KLeaf || b.K != KLeaf {
			eq := fc.valueEq(a, b, t)
			if x.Op == token.NEQ {
				eq = Not(eq)
			}
			fc.setVal(x, Leaf(eq))
			return
		}
	}
	if a.K != KLeaf || b.K != KLeaf {
		fc.setVal(x, fc.freshValue("binop", shapeOf(x.Type(), fc.mode)))
		return
	}
	if a.T.Sort == "F64" {
		fc.setVal(x, fc.freshValue("fop", shapeOf(x.Type(), fc.mode)))
		return
	}
	if a.T.Sort != b.T.Sort && x.Op != token.SHL && x.Op != token.SHR {
		fc.setVal(x, fc.freshValue("binop", shapeOf(x.Type(), fc.mode)))
		return
	}
	r, side := fc.binop(x.Op, a.T, b.T, t, x.Y.Type())
	if r.IsZero() {
		fc.setVal(x, fc.freshValue("binop", shapeOf(x.Type(), fc.mode)))
		return
	}
	if !side.IsZero() {
		fc.oblige("div0", fc.desc(x.Pos(), x.String()), x.Pos(), side)
	}
	if x.Op == token.SHL || x.Op == token.SHR {
		// negative shift counts panic
		if _, signed, ok := intInfo(x.Y.Type()); ok && signed {
			yi := fc.toIndex(b.T, x.Y.Type())
			if _, isConst := x.Y.(*ssa.Const); !isConst {
				fc.oblige("shift", fc.desc(x.Pos(), x.String()), x.Pos(), Ge(yi, IntLit(0)))
			}
		}
	}
	fc.setVal(x, Leaf(r))
}

// valueEq is structural equality of two values of Go type t.
func (fc *FnCtx) valueEq(a, b Value, t types.Type) Term {
	if a.K == KOpaque || b.K == KOpaque {
		return fc.freshConst("eq", SBool)
	}
	switch t.Underlying().(type) {
	case *types.Interface:
		// nil comparison is exact; otherwise compare (type,value) pairs
		if a.K == KIface && b.K == KIface {
			return And(Eq(a.E[0].T, b.E[0].T), Eq(a.E[1].T, b.E[1].T))
		}
	case *types.Slice:
		// only comparison with nil is legal
		if a.K == KSlice && b.K == KSlice {
			return Eq(a.Obj(), b.Obj())
		}
	}
	if a.K != b.K || len(a.E) != len(b.E) {
		return fc.freshConst("eq", SBool)
	}
	if a.K == KLeaf {
		if a.T.Sort != b.T.Sort {
			return fc.freshConst("eq", SBool)
		}
		return Eq(a.T, b.T)
	}
	var cs []Term
	for i := range a.E {
		var ft types.Type = types.Typ[types.Int]
		if st, ok := t.Underlying().(*types.Struct); ok && i < st.NumFields() {
			ft = st.Field(i).Type()
		}
		cs = append(cs, fc.valueEq(a.E[i], b.E[i], ft))
	}
	return And(cs...)
}

// closureAxiom: a closure whose function is under a `pure` contract, created over captured
// variables that can never change (read-only locals), denotes a mathematical function: for all
// arguments that satisfy the contract's requires, apply(closure, args) satisfies its ensures.
// The closure's own body is verified against the same contract like any other function.
func (fc *FnCtx) closureAxiom(x *ssa.MakeClosure, fn *ssa.Function, id Term) {
	c := fc.eng.contractFor(fn)
	if c == nil || !c.Pure || len(c.Ensures) == 0 || fn.Signature.Results().Len() != 1 || fc.pureMode {
		return
	}
	if x == nil && len(fn.FreeVars) > 0 {
		return
	}
	if fc.axiomDone == nil {
		fc.axiomDone = map[string]bool{}
	}
	if fc.axiomDone[id.S] {
		return
	}
	fc.axiomDone[id.S] = true
	env := fc.newEnv(fc.cur)
	env.callee = true
	if fn.Parent() != nil && fn.Parent().Pkg != nil {
		env.pkg = fn.Parent().Pkg.Pkg
	}
	for i, fv := range fn.FreeVars {
		a, ok := x.Bindings[i].(*ssa.Alloc)
		if !ok || !fc.readOnlyLocal(a) {
			return
		}
		var st *ssa.Store
		for _, r := range *a.Referrers() {
			if s, ok := r.(*ssa.Store); ok && s.Addr == ssa.Value(a) {
				st = s
			}
		}
		if st == nil || !(st.Block() == x.Block() || st.Block().Dominates(x.Block())) {
			return
		}
		sv, known := fc.vals[st.Val]
		if !known || sv.K == KOpaque {
			return
		}
		pt, isPtr := fv.Type().Underlying().(*types.Pointer)
		if !isPtr {
			return
		}
		env.binds[fv.Name()] = binding{sv, pt.Elem()}
	}
	for _, lv := range c.Logical {
		b, ok := fc.logical[lv]
		if !ok {
			return
		}
		env.binds[lv] = b
	}
	var qv []string
	var args []Value
	for _, p := range fn.Params {
		sh := shapeOf(p.Type(), fc.mode)
		if sh.K != KLeaf || sh.Sort != SInt {
			return
		}
		fc.nfresh++
		name := fmt.Sprintf("%s!q%d", p.Name(), 800000+fc.nfresh)
		qv = append(qv, name)
		v := Leaf(Term{name, SInt})
		env.binds[p.Name()] = binding{v, p.Type()}
		args = append(args, v)
	}
	rt := fn.Signature.Results().At(0).Type()
	res, ok := fc.applyUF(id, args, rt)
	if !ok {
		return
	}
	env.binds["result"] = binding{res, rt}
	env.binds["result0"] = binding{res, rt}
	env.oldBinds = map[string]binding{}
	for k, v := range env.binds {
		env.oldBinds[k] = v
	}
	env.old = fc.cur
	var pre, post []Term
	for _, r := range c.Requires {
		t, err := fc.specBool(env, r.Text)
		if err != nil {
			return
		}
		pre = append(pre, t)
	}
	for _, en := range c.Ensures {
		if en.GoalOnly {
			continue
		}
		t, err := fc.specBool(env, en.Text)
		if err != nil {
			return
		}
		post = append(post, t)
	}
	ax := Implies(And(pre...), And(post...))
	for i := len(qv) - 1; i >= 0; i-- {
		ax = Term{fmt.Sprintf("(forall ((%s Int)) %s)", qv[i], ax.S), SBool}
	}
	fc.assume(ax)
	fc.usedAssumed[relName(fn)+": closure value denotes the pure function of its contract (captured variables are read-only locals)"] = true
}

// readOnlyLoad: a load, directly or through a chain of field addresses, from a read-only local
// whose single store dominates the load, is the corresponding part of the stored value.
func (fc *FnCtx) readOnlyLoad(x *ssa.UnOp) (Value, bool) {
	var path []int
	v := x.X
	for {
		fa, ok := v.(*ssa.FieldAddr)
		if !ok {
			break
		}
		path = append([]int{fa.Field}, path...)
		v = fa.X
	}
	a, ok := v.(*ssa.Alloc)
	if !ok || !fc.readOnlyLocal(a) {
		return Value{}, false
	}
	var st *ssa.Store
	for _, r := range *a.Referrers() {
		if s, ok := r.(*ssa.Store); ok && s.Addr == ssa.Value(a) {
			st = s
		}
	}
	if st == nil {
		return Value{}, false
	}
	lb := x.Block()
	if st.Block() == lb {
		// same block: the store must come first
		before := false
		for _, ins := range lb.Instrs {
			if ins == ssa.Instruction(st) {
				before = true
			}
			if ins == ssa.Instruction(x) {
				break
			}
		}
		if !before {
			return Value{}, false
		}
	} else if !st.Block().Dominates(lb) {
		return Value{}, false
	}
	val, known := fc.vals[st.Val]
	if !known {
		if c, isConst := st.Val.(*ssa.Const); isConst {
			val = fc.constValue(c)
		} else {
			return Value{}, false
		}
	}
	t := a.Type().Underlying().(*types.Pointer).Elem()
	for _, f := range path {
		stt, ok := t.Underlying().(*types.Struct)
		if !ok || (val.K != KTuple && val.K != KStruct) || f >= len(val.E) {
			return Value{}, false
		}
		val = val.E[f]
		t = stt.Field(f).Type()
	}
	if val.K == KOpaque {
		return Value{}, false
	}
	return val, true
}

func (fc *FnCtx) unOpInstr(x *ssa.UnOp) {
	a := fc.val(x.X)
	switch x.Op {
	case token.MUL: // load
		fc.nilCheck(a, x.Pos(), "load")
		if a.K != KPtr {
			fc.setVal(x, fc.freshValue("ld", shapeOf(x.Type(), fc.mode)))
			return
		}
		if rv, ok := fc.readOnlyLoad(x); ok {
			// a local that is written once and never again: the load is the stored value itself
			fc.setVal(x, rv)
			return
		}
		v := fc.load(fc.cur, x.Type(), a.Obj(), a.Off())
		if v.K == KOpaque {
			fc.vals[x] = v
			return
		}
		fc.setVal(x, v)
		// loaded references are allocated objects
		for _, f := range fc.typeFacts(x.Type(), fc.vals[x], fc.cur.next) {
			fc.assume(f)
		}
	case token.NOT:
		fc.setVal(x, Leaf(Not(a.T)))
	case token.SUB:
		bits, signed, ok := intInfo(x.Type())
		if !ok || a.K != KLeaf {
			fc.setVal(x, fc.freshValue("neg", shapeOf(x.Type(), fc.mode)))
			return
		}
		if a.T.Sort == SInt {
			fc.setVal(x, Leaf(wrapOnce(Sub(IntLit(0), a.T), bits, signed)))
		} else {
			fc.setVal(x, Leaf(mk(a.T.Sort, "bvneg", a.T)))
		}
	case token.XOR:
		bits, signed, ok := intInfo(x.Type())
		if !ok || a.K != KLeaf {
			fc.setVal(x, fc.freshValue("cpl", shapeOf(x.Type(), fc.mode)))
			return
		}
		if a.T.Sort == SInt {
			if signed {
				fc.setVal(x, Leaf(Sub(Sub(IntLit(0), a.T), IntLit(1))))
			} else {
				fc.setVal(x, Leaf(Sub(IntLitBig(new(bigInt).Sub(pow2(bits), bigOne)), a.T)))
			}
		} else {
			fc.setVal(x, Leaf(mk(a.T.Sort, "bvnot", a.T)))
		}
	case token.ARROW:
		fc.unsupported("channel receive")
		fc.setVal(x, fc.freshValue("recv", shapeOf(x.Type(), fc.mode)))
	default:
		fc.setVal(x, fc.freshValue("unop", shapeOf(x.Type(), fc.mode)))
	}
}

func (fc *FnCtx) convert(x *ssa.Convert) {
	a := fc.val(x.X)
	from, to := x.X.Type(), x.Type()
	_, _, fi := intInfo(from)
	_, _, ti := intInfo(to)
	switch {
	case fi && ti && a.K == KLeaf:
		fc.setVal(x, Leaf(fc.convertInt(a.T, from, to)))
		return
	}
	fu, tu := from.Underlying(), to.Underlying()
	// string <-> []byte
	if isString(fu) && isByteSlice(tu) {
		// fresh object holding the bytes of the string
		st := fc.cur
		obj := fc.define(fc.freshName("obj_conv"), st.next)
		st.next = fc.define(fc.freshName("next"), Add(st.next, IntLit(1)))
		inner := fc.freshConst("convbytes", SArr(SInt, SBV(8)))
		st.heap[SBV(8)] = Store(st.heap[SBV(8)], obj, inner)
		fc.commitHeaps()
		ln := strLen(a.T)
		fc.assume(Eq(mk(SStr, "s_frombytes", inner, IntLit(0), ln), a.T))
		i := Term{"i!q", SInt}
		body := Implies(And(Le(IntLit(0), i), Lt(i, ln)), Eq(Select(inner, i), mk(SBV(8), "s_at", a.T, i)))
		fc.assume(Term{fmt.Sprintf("(forall ((i!q Int)) %s)", body.S), SBool})
		fc.vals[x] = SliceV(obj, IntLit(0), ln, ln)
		return
	}
	if isByteSlice(fu) && isString(tu) && a.K == KSlice {
		inner := Select(fc.cur.heap[SBV(8)], a.Obj())
		s := mk(SStr, "s_frombytes", inner, a.Off(), a.Len())
		fc.setVal(x, Leaf(s))
		fc.assume(Eq(strLen(fc.vals[x].T), a.Len()))
		return
	}
	if isString(tu) && fi {
		fc.setVal(x, Leaf(fc.freshConst("runestr", SStr)))
		return
	}
	if _, ok := tu.(*types.Pointer); ok {
		if a.K == KPtr {
			fc.vals[x] = a
			return
		}
	}
	if b, ok := tu.(*types.Basic); ok && b.Kind() == types.UnsafePointer && a.K == KPtr {
		fc.vals[x] = a
		return
	}
	if b, ok := fu.(*types.Basic); ok && b.Kind() == types.UnsafePointer {
		if _, ok := tu.(*types.Pointer); ok && a.K == KPtr {
			fc.vals[x] = a
			return
		}
		fc.unsupported("unsafe.Pointer conversion")
	}
	fc.setVal(x, fc.freshValue("conv", shapeOf(to, fc.mode)))
}

func isString(t types.Type) bool {
	b, ok := t.(*types.Basic)
	return ok && b.Info()&types.IsString != 0
}

func isByteSlice(t types.Type) bool {
	s, ok := t.(*types.Slice)
	if !ok {
		return false
	}
	bits, _, ok := intInfo(s.Elem())
	return ok && bits == 8
}

func (fc *FnCtx) indexValue(x *ssa.Index) {
	a := fc.val(x.X)
	idx := fc.toIndex(fc.val(x.Index).T, x.Index.Type())
	switch t := x.X.Type().Underlying().(type) {
	case *types.Basic:
		if a.K == KLeaf && a.T.Sort == SStr {
			fc.oblige("bounds", fc.desc(x.Pos(), x.String()), x.Pos(), And(Le(IntLit(0), idx), Lt(idx, strLen(a.T))))
			fc.setVal(x, Leaf(mk(SBV(8), "s_at", a.T, idx)))
			return
		}
	case *types.Array:
		fc.oblige("bounds", fc.desc(x.Pos(), x.String()), x.Pos(), And(Le(IntLit(0), idx), Lt(idx, IntLit(t.Len()))))
		if n, ok := isSmallByteArray(x.X.Type()); ok && a.K == KLeaf {
			fc.setVal(x, Leaf(byteOfBV(a.T, idx, int(n))))
			return
		}
		if a.K == KLeaf && a.T.Sort.IsArr() {
			fc.setVal(x, Leaf(Select(a.T, idx)))
			return
		}
	}
	fc.setVal(x, fc.freshValue("idx", shapeOf(x.Type(), fc.mode)))
}

// byteOfBV extracts byte idx (little-endian) of an n-byte bit-vector.
func byteOfBV(v Term, idx Term, n int) Term {
	if n == 1 {
		return v
	}
	if c, ok := intConst(idx); ok && c >= 0 && int(c) < n {
		return extract(v, int(8*c+7), int(8*c))
	}
	t := extract(v, 8*n-1, 8*(n-1))
	for i := n - 2; i >= 0; i-- {
		t = Ite(Eq(idx, IntLit(int64(i))), extract(v, 8*i+7, 8*i), t)
	}
	return t
}

func (fc *FnCtx) indexAddr(x *ssa.IndexAddr) {
	a := fc.val(x.X)
	idx := fc.toIndex(fc.val(x.Index).T, x.Index.Type())
	idx = fc.define(fc.freshName("ix"), idx)
	switch t := x.X.Type().Underlying().(type) {
	case *types.Slice:
		if a.K != KSlice {
			break
		}
		fc.oblige("bounds", fc.desc(x.Pos(), x.String()), x.Pos(), And(Le(IntLit(0), idx), Lt(idx, a.Len())))
		c := cellsOf(t.Elem())
		fc.vals[x] = PtrV(a.Obj(), fc.define(fc.freshName("off"), Add(a.Off(), Mul(idx, IntLit(c)))))
		return
	case *types.Pointer:
		arr := t.Elem().Underlying().(*types.Array)
		if a.K != KPtr {
			break
		}
		fc.nilCheck(a, x.Pos(), "indexaddr")
		if _, isConst := x.Index.(*ssa.Const); !isConst || true {
			fc.oblige("bounds", fc.desc(x.Pos(), x.String()), x.Pos(), And(Le(IntLit(0), idx), Lt(idx, IntLit(arr.Len()))))
		}
		c := cellsOf(arr.Elem())
		fc.vals[x] = PtrV(a.Obj(), fc.define(fc.freshName("off"), Add(a.Off(), Mul(idx, IntLit(c)))))
		return
	}
	fc.vals[x] = fc.freshValue("ixa", shapeOf(x.Type(), fc.mode))
}

func (fc *FnCtx) sliceInstr(x *ssa.Slice) {
	a := fc.val(x.X)
	get := func(v ssa.Value) (Term, bool) {
		if v == nil {
			return Term{}, false
		}
		return fc.toIndex(fc.val(v).T, v.Type()), true
	}
	lo, hasLo := get(x.Low)
	hi, hasHi := get(x.High)
	mx, hasMax := get(x.Max)
	if !hasLo {
		lo = IntLit(0)
	}
	d := fc.desc(x.Pos(), x.String())
	switch t := x.X.Type().Underlying().(type) {
	case *types.Slice:
		if a.K != KSlice {
			break
		}
		if !hasHi {
			hi = a.Len()
		}
		if !hasMax {
			mx = a.Cap()
		}
		goal := And(Le(IntLit(0), lo), Le(lo, hi), Le(hi, mx), Le(mx, a.Cap()))
		fc.oblige("bounds", d, x.Pos(), goal)
		c := cellsOf(t.Elem())
		// s[lo:hi] of a nil slice stays nil
		v := SliceV(a.Obj(), Add(a.Off(), Mul(lo, IntLit(c))), Sub(hi, lo), Sub(mx, lo))
		fc.setVal(x, v)
		return
	case *types.Basic: // string
		if a.K != KLeaf {
			break
		}
		ln := strLen(a.T)
		if !hasHi {
			hi = ln
		}
		fc.oblige("bounds", d, x.Pos(), And(Le(IntLit(0), lo), Le(lo, hi), Le(hi, ln)))
		r := mk(SStr, "s_sub", a.T, lo, hi)
		fc.setVal(x, Leaf(r))
		fc.assume(Eq(strLen(fc.vals[x].T), Sub(hi, lo)))
		return
	case *types.Pointer:
		arr := t.Elem().Underlying().(*types.Array)
		if a.K != KPtr {
			break
		}
		fc.nilCheck(a, x.Pos(), "slice of array pointer")
		n := IntLit(arr.Len())
		if !hasHi {
			hi = n
		}
		if !hasMax {
			mx = n
		}
		fc.oblige("bounds", d, x.Pos(), And(Le(IntLit(0), lo), Le(lo, hi), Le(hi, mx), Le(mx, n)))
		c := cellsOf(arr.Elem())
		fc.setVal(x, SliceV(a.Obj(), Add(a.Off(), Mul(lo, IntLit(c))), Sub(hi, lo), Sub(mx, lo)))
		return
	}
	fc.setVal(x, fc.freshValue("slice", shapeOf(x.Type(), fc.mode)))
}

func (fc *FnCtx) makeSlice(x *ssa.MakeSlice) {
	st := fc.cur
	ln := fc.toIndex(fc.val(x.Len).T, x.Len.Type())
	cp := fc.toIndex(fc.val(x.Cap).T, x.Cap.Type())
	elem := x.Type().Underlying().(*types.Slice).Elem()
	d := fc.desc(x.Pos(), x.String())
	maxLen := Term{"maxAlloc", SInt}
	fc.oblige("makelen", d, x.Pos(), And(Le(IntLit(0), ln), Le(ln, cp), Le(Mul(cp, IntLit(fc.eng.sizeofType(elem))), maxLen)))
	if fc.c != nil && fc.c.MaxAlloc != "" && !fc.pureMode {
		// allocation proportional to the input: no size taken from an untrusted field may make the
		// function allocate more than the stated bound
		if sv, err := fc.specExpr(fc.entryEnv(), fc.c.MaxAlloc); err != nil {
			fc.unbound = append(fc.unbound, fmt.Sprintf("max-alloc %q: %v", fc.c.MaxAlloc, err))
		} else if bt, ok := fc.toIntTerm(sv); ok {
			fc.oblige("makelen", d+" allocates at most "+fc.c.MaxAlloc+" bytes", x.Pos(), Le(Mul(cp, IntLit(fc.eng.sizeofType(elem))), bt))
		}
	}
	obj := fc.define(fc.freshName("obj_"+x.Name()), st.next)
	st.next = fc.define(fc.freshName("next"), Add(st.next, IntLit(1)))
	fc.zeroObject(st, obj)
	fc.commitHeaps()
	fc.assume(Eq(otypeOf(obj), IntLit(fc.eng.typeIDByName(arrTag(elem)))))
	fc.vals[x] = SliceV(obj, IntLit(0), fc.define(fc.freshName("len"), ln), fc.define(fc.freshName("cap"), cp))
}

func (e *Engine) sizeofType(t types.Type) int64 {
	sz := types.SizesFor("gc", "amd64").Sizeof(t)
	if sz <= 0 {
		return 1
	}
	return sz
}

func (fc *FnCtx) makeInterface(x *ssa.MakeInterface) {
	a := fc.val(x.X)
	tid := IntLit(fc.eng.typeID(x.X.Type()))
	var val Term
	switch {
	case a.K == KLeaf && a.T.Sort != "F64":
		val = mk(SInt, "box_"+sortTag(a.T.Sort), a.T)
		fc.eng.needBox(a.T.Sort)
	case a.K == KPtr:
		val = mk(SInt, "box_ptr", a.Obj(), a.Off())
	case a.K == KStruct && len(a.Leaves()) == 0:
		val = IntLit(1)
	default:
		val = fc.freshConst("box", SInt)
	}
	fc.setVal(x, IfaceV(tid, val))
	fc.ifaceSrc[x] = x.X
}

var boxSorts = map[Sort]bool{}

func (e *Engine) needBox(s Sort) { boxSorts[s] = true }

func (fc *FnCtx) typeAssert(x *ssa.TypeAssert) {
	a := fc.val(x.X)
	sh := shapeOf(x.AssertedType, fc.mode)
	var ok Term
	var v Value
	if _, isIface := x.AssertedType.Underlying().(*types.Interface); isIface {
		ok = fc.freshConst("taok", SBool)
		if a.K == KIface {
			fc.assume(Implies(ok, Not(Eq(a.E[0].T, IntLit(0)))))
		}
		v = a
	} else if a.K == KIface {
		tid := IntLit(fc.eng.typeID(x.AssertedType))
		ok = Eq(a.E[0].T, tid)
		switch {
		case sh.K == KLeaf && sh.Sort != "F64":
			fc.eng.needBox(sh.Sort)
			v = Leaf(mk(sh.Sort, "unbox_"+sortTag(sh.Sort), a.E[1].T))
		case sh.K == KPtr:
			v = PtrV(mk(SInt, "unbox_ptr_obj", a.E[1].T), mk(SInt, "unbox_ptr_off", a.E[1].T))
		default:
			v = fc.freshValue("ta", sh)
		}
	} else {
		ok = fc.freshConst("taok", SBool)
		v = fc.freshValue("ta", sh)
	}
	if x.CommaOk {
		zero := fc.zeroOfShape(sh)
		if zero.K != KOpaque && v.K != KOpaque {
			v = fc.iteValue(ok, v, zero)
		}
		fc.setVal(x, Value{K: KTuple, E: []Value{v, Leaf(ok)}})
		return
	}
	fc.oblige("typeassert", fc.desc(x.Pos(), x.String()), x.Pos(), ok)
	fc.setVal(x, v)
}

// ---- maps ----------------------------------------------------------

// mapSlot returns the slot index of a key (injective per key type).
func (fc *FnCtx) mapSlot(kt types.Type, k Value) Term {
	leaves := k.Leaves()
	if len(leaves) == 0 {
		return fc.freshConst("slot", SInt)
	}
	name := "slot"
	for _, l := range leaves {
		name += "_" + sortTag(l.Sort)
	}
	fc.eng.needSlot(name, leaves)
	return mk(SInt, name, leaves...)
}

var slotFns = map[string][]Sort{}

func (e *Engine) needSlot(name string, leaves []Term) {
	if _, ok := slotFns[name]; ok {
		return
	}
	var ss []Sort
	for _, l := range leaves {
		ss = append(ss, l.Sort)
	}
	slotFns[name] = ss
}

func (fc *FnCtx) lookup(x *ssa.Lookup) {
	a := fc.val(x.X)
	if mt, ok := x.X.Type().Underlying().(*types.Map); ok && a.K == KLeaf {
		k := fc.val(x.Index)
		slot := fc.define(fc.freshName("slot"), fc.mapSlot(mt.Key(), k))
		c := cellsOf(mt.Elem())
		indom := Select(Select(fc.cur.mdom, a.T), slot)
		v := fc.load(fc.cur, mt.Elem(), a.T, Mul(slot, IntLit(c)))
		zero := fc.zeroValue(mt.Elem())
		if v.K != KOpaque && zero.K != KOpaque {
			v = fc.iteValue(indom, v, zero)
		}
		if x.CommaOk {
			fc.setVal(x, Value{K: KTuple, E: []Value{v, Leaf(indom)}})
		} else {
			fc.setVal(x, v)
		}
		var vv Value = fc.vals[x]
		if x.CommaOk {
			vv = vv.E[0]
		}
		for _, f := range fc.typeFacts(mt.Elem(), vv, fc.cur.next) {
			fc.assume(f)
		}
		return
	}
	// string index
	if a.K == KLeaf && a.T.Sort == SStr {
		idx := fc.toIndex(fc.val(x.Index).T, x.Index.Type())
		fc.oblige("bounds", fc.desc(x.Pos(), x.String()), x.Pos(), And(Le(IntLit(0), idx), Lt(idx, strLen(a.T))))
		fc.setVal(x, Leaf(mk(SBV(8), "s_at", a.T, idx)))
		return
	}
	fc.setVal(x, fc.freshValue("lookup", shapeOf(x.Type(), fc.mode)))
}

func (fc *FnCtx) mapUpdate(x *ssa.MapUpdate) {
	a := fc.val(x.Map)
	mt := x.Map.Type().Underlying().(*types.Map)
	st := fc.cur
	if a.K != KLeaf {
		fc.havocAll("map update on unknown map")
		return
	}
	fc.oblige("nilmap", fc.desc(x.Pos(), "map update"), x.Pos(), Not(Eq(a.T, IntLit(0))))
	k := fc.val(x.Key)
	slot := fc.define(fc.freshName("slot"), fc.mapSlot(mt.Key(), k))
	c := cellsOf(mt.Elem())
	dom := Select(st.mdom, a.T)
	indom := Select(dom, slot)
	st.mlen = Store(st.mlen, a.T, Ite(indom, Select(st.mlen, a.T), Add(Select(st.mlen, a.T), IntLit(1))))
	st.mdom = Store(st.mdom, a.T, Store(dom, slot, TTrue))
	fc.store(st, mt.Elem(), a.T, Mul(slot, IntLit(c)), fc.val(x.Value))
	fc.commitHeaps()
}

func (fc *FnCtx) next(x *ssa.Next) {
	// (ok, k, v)
	tup := x.Type().(*types.Tuple)
	ok := fc.freshConst("nextok", SBool)
	kv := fc.freshValue("nextk", shapeOf(tup.At(1).Type(), fc.mode))
	vv := fc.freshValue("nextv", shapeOf(tup.At(2).Type(), fc.mode))
	if rng, isR := x.Iter.(*ssa.Range); isR && !x.IsString {
		m := fc.val(rng.X)
		if mt, isM := rng.X.Type().Underlying().(*types.Map); isM && m.K == KLeaf {
			slot := fc.define(fc.freshName("slot"), fc.mapSlot(mt.Key(), kv))
			fc.assume(Implies(ok, Select(Select(fc.cur.mdom, m.T), slot)))
			fc.assume(Implies(ok, Gt(Select(fc.cur.mlen, m.T), IntLit(0))))
			if g, has := fc.rangeGhost[rng]; has {
				// each key is produced once; the loop ends when every key has been produced
				vis := fc.cur.ghost[g]
				fc.assume(Implies(ok, Not(Select(vis, slot))))
				dom := Select(fc.cur.mdom, m.T)
				sq := Term{"s!vis", SInt}
				all := Term{fmt.Sprintf("(forall ((s!vis Int)) (! (=> (select %s s!vis) (select %s s!vis)) :pattern ((select %s s!vis))))", dom.S, vis.S, dom.S), SBool}
				_ = sq
				fc.assume(Implies(Not(ok), all))
				fc.cur.ghost[g] = fc.define(fc.freshName(g), Ite(ok, Store(vis, slot, TTrue), vis))
			}
			if _, isInv := tup.At(2).Type().(*types.Basic); !isInv || tup.At(2).Type() != types.Typ[types.Invalid] {
				lv := fc.load(fc.cur, mt.Elem(), m.T, Mul(slot, IntLit(cellsOf(mt.Elem()))))
				if lv.K != KOpaque {
					vv = lv
				}
			}
		}
	}
	for _, f := range fc.typeFacts(tup.At(1).Type(), kv, fc.cur.next) {
		fc.assume(f)
	}
	for _, f := range fc.typeFacts(tup.At(2).Type(), vv, fc.cur.next) {
		fc.assume(f)
	}
	fc.setVal(x, Value{K: KTuple, E: []Value{Leaf(ok), kv, vv}})
}

// havocAll forgets the whole heap (unknown effect).
func (fc *FnCtx) havocAll(why string) {
	st := fc.cur
	pre := st.clone()
	defer func() {
		if fc.curBlk >= 0 && fc.curBlk < len(fc.fn.Blocks) {
			fc.keepReadOnlyLocals(pre, st, fc.fn.Blocks[fc.curBlk])
		}
	}()
	for _, hs := range heapSorts {
		st.heap[hs] = fc.freshConst("Hhavoc_"+sortTag(hs), heapSort(hs))
	}
	st.mdom = fc.freshConst("mdomhavoc", st.mdom.Sort)
	st.mlen = fc.freshConst("mlenhavoc", st.mlen.Sort)
	nn := fc.freshConst("nexthavoc", SInt)
	fc.assume(Ge(nn, st.next))
	st.next = nn
}

// ---- returns, panics ----------------------------------------------

func (fc *FnCtx) panicInstr(x *ssa.Panic) {
	d := fc.posDesc(x.Pos(), func(n ast.Node) bool { _, ok := n.(*ast.CallExpr); return ok })
	if d == "" {
		d = "panic"
	}
	if fc.c != nil && fc.c.Panics != nil {
		env := fc.entryEnv()
		t, err := fc.specBool(env, fc.c.Panics.Text)
		if err == nil {
			fc.oblige("panic-allowed", d, x.Pos(), t)
			return
		}
	}
	fc.oblige("panic", d, x.Pos(), TFalse)
}

func (fc *FnCtx) ret(x *ssa.Return) {
	fc.runDefersAtReturn()
	if fc.c == nil {
		return
	}
	var results []Value
	for _, r := range x.Results {
		results = append(results, fc.val(r))
	}
	env := fc.returnEnv(x, results)
	for _, en := range fc.c.Ensures {
		if len(en.Props) > 0 && fc.eng.curProp != "" && !hasProp(en.Props, fc.eng.curProp) {
			continue
		}
		t, sks, err := fc.specBoolGoal(env, en.Text)
		if err != nil {
			fc.unbound = append(fc.unbound, fmt.Sprintf("ensures %q: %v", en.Text, err))
			continue
		}
		o := fc.oblige("ensures", en.Text, x.Pos(), t)
		fc.addInsts(o, env, sks)
		if len(sks) > 0 {
			fc.dropLastAssertFact()
			if qt, qerr := fc.specBool(env, en.Text); qerr == nil {
				fc.seq++
				fc.facts = append(fc.facts, Fact{blk: fc.curBlk, seq: fc.seq, t: qt, isAssert: true})
			}
		}
	}
	if fr, ok := fc.funcFrame(fc.cur); ok {
		labels, parts := frameParts(fr)
		for i := range parts {
			fc.oblige("frame", "modifies["+labels[i]+"]", x.Pos(), parts[i])
		}
	}
	for _, pz := range fc.c.Preserves {
		eqs, err := fc.preservesEqs(fc.entryEnv(), pz, fc.entry, fc.cur)
		if err != nil {
			fc.unbound = append(fc.unbound, fmt.Sprintf("preserves %q: %v", pz, err))
			continue
		}
		fc.oblige("preserves", pz, x.Pos(), eqs)
	}
	fc.retIdx++
}

// runDefers executes the deferred calls in reverse order. A defer whose block dominates
// the RunDefers block has certainly been registered exactly once (defers inside loops are
// outside the subset); a conditional defer is over-approximated by havocking the heap.
func (fc *FnCtx) runDefers() {
	for i := len(fc.deferred) - 1; i >= 0; i-- {
		d := fc.deferred[i]
		if fc.inLoop(d.Block()) {
			fc.unsupported("defer inside a loop")
			continue
		}
		cb := fc.fn.Blocks[fc.curBlk]
		if !d.Block().Dominates(cb) {
			if fc.blockReaches(d.Block(), cb) {
				fc.havocAll("conditional defer")
			}
			continue
		}
		fc.call(d, &d.Call)
	}
}

func (fc *FnCtx) inLoop(b *ssa.BasicBlock) bool {
	for _, li := range fc.loops {
		if li.body[b.Index] {
			return true
		}
	}
	return false
}

func (fc *FnCtx) blockReaches(a, b *ssa.BasicBlock) bool {
	seen := map[*ssa.BasicBlock]bool{}
	var walk func(x *ssa.BasicBlock) bool
	walk = func(x *ssa.BasicBlock) bool {
		if x == b {
			return true
		}
		if seen[x] {
			return false
		}
		seen[x] = true
		for _, s := range x.Succs {
			if walk(s) {
				return true
			}
		}
		return false
	}
	return walk(a)
}
func (fc *FnCtx) runDefersAtReturn() {}

func (fc *FnCtx) goInstr(x *ssa.Go) {
	if fc.c != nil && len(fc.c.ForkJoin) == 4 {
		fc.forkJoinSpawn(x)
		return
	}
	if fc.c != nil {
		for _, n := range fc.c.Notes {
			if strings.HasPrefix(n, "allow-go") {
				// the spawned goroutine is assumed not to interfere with this function's
				// state (stated in the contract); its effects are over-approximated
				fc.usedAssumed[fc.name+": "+n] = true
				fc.havocAll("go")
				return
			}
		}
	}
	fc.unsupported("go statement")
}

// forkJoinShape checks the syntactic side conditions of the parallel-for rule on the SSA of
// the spawner and the worker.
func (fc *FnCtx) forkJoinShape(x *ssa.Go, worker *ssa.Function) (ok bool, why string, phi *ssa.Phi, initV, addArg ssa.Value) {
	fail := func(s string) (bool, string, *ssa.Phi, ssa.Value, ssa.Value) {
		return false, " -- " + s, nil, nil, nil
	}
	// exactly one go statement in the function
	var li *LoopInfo
	for _, b := range fc.fn.Blocks {
		for _, ins := range b.Instrs {
			if g, isGo := ins.(*ssa.Go); isGo && g != x {
				return fail("more than one go statement")
			}
		}
	}
	for _, l := range fc.loops {
		if l.body[x.Block().Index] {
			if li != nil {
				return fail("go statement inside nested loops")
			}
			li = l
		}
	}
	if li == nil {
		return fail("go statement not inside a loop")
	}
	// the argument is the loop counter: phi(init, phi+1)
	p, isPhi := x.Common().Args[0].(*ssa.Phi)
	if !isPhi || p.Block() != li.header || len(p.Edges) != 2 {
		return fail("worker argument is not the loop counter")
	}
	for k, e := range p.Edges {
		pred := li.header.Preds[k]
		if li.body[pred.Index] {
			add, isAdd := e.(*ssa.BinOp)
			if !isAdd || add.Op != token.ADD || add.X != ssa.Value(p) {
				return fail("loop counter is not incremented by one")
			}
			c, isC := add.Y.(*ssa.Const)
			if !isC || c.Int64() != 1 {
				return fail("loop counter is not incremented by one")
			}
			if !x.Block().Dominates(pred) {
				return fail("an iteration can skip the go statement")
			}
		} else {
			initV = e
		}
	}
	if initV == nil {
		return fail("no initial value for the loop counter")
	}
	// the only exit of the loop is the header test
	for bi := range li.body {
		b := fc.fn.Blocks[bi]
		for _, s := range b.Succs {
			if !li.body[s.Index] && b != li.header {
				return fail("loop has an exit other than the header test")
			}
		}
	}
	// wg.Add before the loop, wg.Wait after it, on the same WaitGroup the worker signals
	var wgAdd, wgWait *ssa.Call
	for _, b := range fc.fn.Blocks {
		for _, ins := range b.Instrs {
			c, isCall := ins.(*ssa.Call)
			if !isCall {
				continue
			}
			switch calleeDisplayName(c.Common()) {
			case "(*sync.WaitGroup).Add":
				if wgAdd != nil {
					return fail("more than one wg.Add")
				}
				wgAdd = c
			case "(*sync.WaitGroup).Wait":
				if wgWait != nil {
					return fail("more than one wg.Wait")
				}
				wgWait = c
			case "(*sync.WaitGroup).Done":
				return fail("spawner calls wg.Done")
			}
		}
	}
	if wgAdd == nil || wgWait == nil {
		return fail("missing wg.Add or wg.Wait")
	}
	if li.body[wgAdd.Block().Index] || !wgAdd.Block().Dominates(li.header) {
		return fail("wg.Add does not precede the spawning loop")
	}
	if li.body[wgWait.Block().Index] || !li.header.Dominates(wgWait.Block()) {
		return fail("wg.Wait does not follow the spawning loop")
	}
	// every return reachable from the loop passes through wg.Wait
	for _, b := range fc.fn.Blocks {
		if _, isRet := b.Instrs[len(b.Instrs)-1].(*ssa.Return); isRet && li.header.Dominates(b) && !wgWait.Block().Dominates(b) {
			return fail("a return after the spawning loop bypasses wg.Wait")
		}
	}
	wg := wgAdd.Common().Args[0]
	if wgWait.Common().Args[0] != wg {
		return fail("wg.Add and wg.Wait use different WaitGroups")
	}
	// the worker's first instruction defers Done on the captured WaitGroup, and it spawns nothing
	mc := x.Common().Value.(*ssa.MakeClosure)
	var fvIdx = -1
	for i, b := range mc.Bindings {
		if b == wg {
			fvIdx = i
		}
	}
	if fvIdx < 0 {
		return fail("worker does not capture the WaitGroup")
	}
	doneOK := false
	for _, ins := range worker.Blocks[0].Instrs {
		if d, isDefer := ins.(*ssa.Defer); isDefer {
			if calleeDisplayName(&d.Call) == "(*sync.WaitGroup).Done" && d.Call.Args[0] == ssa.Value(worker.FreeVars[fvIdx]) {
				doneOK = true
			}
			break
		}
		if _, isCall := ins.(ssa.CallInstruction); isCall {
			break
		}
	}
	if !doneOK {
		return fail("worker does not start with defer wg.Done()")
	}
	for _, b := range worker.Blocks {
		for _, ins := range b.Instrs {
			switch c := ins.(type) {
			case *ssa.Go:
				return fail("worker spawns goroutines")
			case *ssa.Call:
				if n := calleeDisplayName(c.Common()); strings.HasPrefix(n, "(*sync.WaitGroup).") {
					return fail("worker calls " + n + " outside the deferred Done")
				}
			}
		}
	}
	return true, "", p, initV, wgAdd.Common().Args[1]
}

// forkJoinSpawn: the parallel-for rule (DESIGN §2.7). `go worker(i)` inside the spawning
// loop of a function whose contract says `forkjoin lo; hi; total; witness`:
//   F1  lo <= i < hi
//   F2  the worker's footprint [flo(i), fhi(i)) lies within [0, total)
//   F3  footprints of two different workers are disjoint (= data-race freedom, given that a
//       worker writes only inside its footprint and reads nothing another worker writes)
//   F4  every work item x in [0,total) belongs to the footprint of worker witness(x)
// and the worker itself is then treated as a call (sequentialisation, sound under F3).
func (fc *FnCtx) forkJoinSpawn(x *ssa.Go) {
	cc := x.Common()
	mc, ok := cc.Value.(*ssa.MakeClosure)
	if !ok || len(cc.Args) != 1 {
		fc.unsupported("go statement outside the fork-join pattern")
		return
	}
	worker := mc.Fn.(*ssa.Function)
	wc := fc.eng.contractFor(worker)
	if wc == nil || len(wc.Footprint) != 2 {
		fc.unsupported("go statement: worker closure has no footprint contract")
		return
	}
	pos := x.Pos()
	shapeOK, why, phi, initV, addArg := fc.forkJoinShape(x, worker)
	g := TTrue
	if !shapeOK {
		g = TFalse
	}
	so := fc.oblige("forkjoin", "fork-join shape: wg.Add(n); for i := lo; i < hi; i++ { go worker(i) /* defer wg.Done() */ }; wg.Wait()"+why, pos, g)
	if !shapeOK {
		so.preSolved, so.Status, so.Solver = true, "refuted", "static"
		return
	}
	env := fc.newEnv(fc.cur)
	env.atBlk = x.Block()
	env.wholeBlk = true
	env.upTo = x
	evalInt := func(e *Env, text string) (Term, bool) {
		sv, err := fc.specExpr(e, text)
		if err != nil {
			fc.unbound = append(fc.unbound, fmt.Sprintf("forkjoin %q: %v", text, err))
			return Term{}, false
		}
		return fc.toIntTerm(e.coerce(sv, specIntType))
	}
	lo, ok1 := evalInt(env, fc.c.ForkJoin[0])
	hi, ok2 := evalInt(env, fc.c.ForkJoin[1])
	total, ok3 := evalInt(env, fc.c.ForkJoin[2])
	if !ok1 || !ok2 || !ok3 {
		return
	}
	arg := fc.toIndex(fc.val(cc.Args[0]).T, cc.Args[0].Type())
	fc.oblige("forkjoin", "worker index within [lo,hi)", pos, And(Le(lo, arg), Lt(arg, hi)))
	fc.oblige("forkjoin", "first worker index is lo", pos, Eq(fc.toIndex(fc.val(initV).T, initV.Type()), lo))
	fc.oblige("forkjoin", "WaitGroup counter equals the number of workers", pos, Eq(fc.toIndex(fc.val(addArg).T, addArg.Type()), Sub(hi, lo)))
	fc.fjPhi, fc.fjHi = phi, fc.c.ForkJoin[1]
	// worker environment: parameter + captured variables
	wenv := func(idx Term) *Env {
		e := fc.newEnv(fc.cur)
		e.callee = true
		if f := worker; f.Parent() != nil && f.Parent().Pkg != nil {
			e.pkg = f.Parent().Pkg.Pkg
		}
		e.binds[worker.Params[0].Name()] = binding{Leaf(fc.fromIndex(idx, worker.Params[0].Type())), worker.Params[0].Type()}
		for i, fv := range worker.FreeVars {
			pt, isPtr := fv.Type().Underlying().(*types.Pointer)
			bp := fc.val(mc.Bindings[i])
			if isPtr && bp.K == KPtr {
				e.binds[fv.Name()] = binding{fc.load(fc.cur, pt.Elem(), bp.Obj(), bp.Off()), pt.Elem()}
			}
		}
		return e
	}
	fp := func(idx Term) (Term, Term, bool) {
		e := wenv(idx)
		a, oka := evalInt(e, wc.Footprint[0])
		b, okb := evalInt(e, wc.Footprint[1])
		return a, b, oka && okb
	}
	a1, b1, ok := fp(arg)
	if !ok {
		return
	}
	fc.oblige("forkjoin", "worker footprint within [0,total)", pos, And(Le(IntLit(0), a1), Le(a1, b1), Le(b1, total)))
	other := fc.freshConst("otherWorker", SInt)
	a2, b2, ok := fp(other)
	if ok {
		o := fc.oblige("forkjoin", "footprints of two different workers are disjoint (no data race)", pos,
			Implies(And(Le(lo, other), Lt(other, hi), Not(Eq(other, arg))), Or(Le(b1, a2), Le(b2, a1))))
		_ = o
	}
	item := fc.freshConst("workItem", SInt)
	wit := fc.newEnv(fc.cur)
	wit.atBlk = x.Block()
	wit.wholeBlk = true
	wit.upTo = x
	wit.binds["x"] = binding{Leaf(item), specIntType}
	if w, okw := evalInt(wit, fc.c.ForkJoin[3]); okw {
		aw, bw, ok := fp(w)
		if ok {
			fc.oblige("forkjoin", "every work item belongs to the footprint of a spawned worker (coverage)", pos,
				Implies(And(Le(IntLit(0), item), Lt(item, total)), And(Le(lo, w), Lt(w, hi), Le(aw, item), Lt(item, bw))))
		}
	}
	// sequentialisation: the worker runs as an ordinary call under its contract
	var names []string
	var typs []types.Type
	args := []Value{fc.val(cc.Args[0])}
	for _, p := range worker.Params {
		names = append(names, p.Name())
		typs = append(typs, p.Type())
	}
	for i, fv := range worker.FreeVars {
		pt, isPtr := fv.Type().Underlying().(*types.Pointer)
		bp := fc.val(mc.Bindings[i])
		if isPtr && bp.K == KPtr {
			names = append(names, fv.Name())
			typs = append(typs, pt.Elem())
			args = append(args, fc.load(fc.cur, pt.Elem(), bp.Obj(), bp.Off()))
		}
	}
	fc.applyContract(wc, relName(worker), names, typs, args, worker.Signature.Results(), pos, worker)
}
