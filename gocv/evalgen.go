package main

import (
	"bytes"
	"context"
	"encoding/json"
	"fmt"
	"go/ast"
	"go/parser"
	"go/printer"
	"go/token"
	"os"
	"os/exec"
	"path/filepath"
	"regexp"
	"strings"
	"time"
)

// goExpr rewrites a spec expression into compilable Go.
func goExpr(text string) (string, error) {
	ex, err := parser.ParseExpr(text)
	if err != nil {
		return "", err
	}
	quantDepth = 0
	ex = rewriteSpecToGo(ex)
	var buf bytes.Buffer
	if err := printer.Fprint(&buf, token.NewFileSet(), ex); err != nil {
		return "", err
	}
	return buf.String(), nil
}

func mustParse(s string) ast.Expr {
	e, err := parser.ParseExpr(s)
	if err != nil {
		panic(fmt.Sprintf("internal: cannot parse %q: %v", s, err))
	}
	return e
}

func exprText(e ast.Expr) string {
	var buf bytes.Buffer
	printer.Fprint(&buf, token.NewFileSet(), e)
	return buf.String()
}

var quantDepth = 0

// evalPreds holds the pred macros of the package being generated for.
var evalPreds = map[string]string{}

func rewriteSpecToGo(e ast.Expr) ast.Expr {
	switch x := e.(type) {
	case *ast.Ident:
		if body, ok := evalPreds[x.Name]; ok {
			return &ast.ParenExpr{X: rewriteSpecToGo(mustParse(body))}
		}
		return e
	case *ast.ParenExpr:
		return &ast.ParenExpr{X: rewriteSpecToGo(x.X)}
	case *ast.BinaryExpr:
		return &ast.BinaryExpr{X: rewriteSpecToGo(x.X), Op: x.Op, Y: rewriteSpecToGo(x.Y)}
	case *ast.UnaryExpr:
		return &ast.UnaryExpr{Op: x.Op, X: rewriteSpecToGo(x.X)}
	case *ast.IndexExpr:
		return &ast.IndexExpr{X: rewriteSpecToGo(x.X), Index: rewriteSpecToGo(x.Index)}
	case *ast.SliceExpr:
		n := &ast.SliceExpr{X: rewriteSpecToGo(x.X)}
		if x.Low != nil {
			n.Low = rewriteSpecToGo(x.Low)
		}
		if x.High != nil {
			n.High = rewriteSpecToGo(x.High)
		}
		return n
	case *ast.SelectorExpr:
		return &ast.SelectorExpr{X: rewriteSpecToGo(x.X), Sel: x.Sel}
	case *ast.StarExpr:
		return &ast.StarExpr{X: rewriteSpecToGo(x.X)}
	case *ast.CallExpr:
		isQ := false
		if id, ok := x.Fun.(*ast.Ident); ok && (id.Name == "forall" || id.Name == "forallv" || id.Name == "exists") {
			isQ = true
			quantDepth++
		}
		var args []ast.Expr
		for _, a := range x.Args {
			args = append(args, rewriteSpecToGo(a))
		}
		if isQ {
			quantDepth--
		}
		if id, ok := x.Fun.(*ast.Ident); ok {
			switch id.Name {
			case "forall", "exists":
				v := exprText(x.Args[0])
				if id.Name == "forall" && quantDepth == 0 {
					return mustParse(fmt.Sprintf("gocvParForall(int(%s), int(%s), func(%s int) bool { return %s })",
						exprText(args[1]), exprText(args[2]), v, exprText(args[3])))
				}
				neg, ret1, ret2 := "!", "false", "true"
				if id.Name == "exists" {
					neg, ret1, ret2 = "", "true", "false"
				}
				src := fmt.Sprintf("func() bool { for %s := int(%s); %s < int(%s); %s++ { if %s(%s) { return %s } }; return %s }()",
					v, exprText(args[1]), v, exprText(args[2]), v, neg, exprText(args[3]), ret1, ret2)
				return mustParse(src)
			case "forallv":
				v := exprText(x.Args[0])
				ty := exprText(x.Args[1])
				n := map[string]string{"T": "65536", "uint16": "65536", "byte": "256", "uint8": "256"}[ty]
				if n == "" {
					panic("forallv over " + ty + " cannot be enumerated")
				}
				if quantDepth == 0 {
					return mustParse(fmt.Sprintf("gocvParForall(0, %s, func(%s_i int) bool { %s := %s(%s_i); return %s })",
						n, v, v, ty, v, exprText(args[2])))
				}
				src := fmt.Sprintf("func() bool { for %s_i := 0; %s_i < %s; %s_i++ { %s := %s(%s_i); if !(%s) { return false } }; return true }()",
					v, v, n, v, v, ty, v, exprText(args[2]))
				return mustParse(src)
			case "implies":
				return mustParse(fmt.Sprintf("(!(%s) || (%s))", exprText(args[0]), exprText(args[1])))
			case "iff":
				return mustParse(fmt.Sprintf("((%s) == (%s))", exprText(args[0]), exprText(args[1])))
			case "mathint":
				return mustParse(fmt.Sprintf("int(%s)", exprText(args[0])))
			case "old":
				return mustParse(fmt.Sprintf("(%s)", oldName(exprText(args[0]))))
			}
		}
		return &ast.CallExpr{Fun: x.Fun, Args: args}
	}
	return e
}

var identRe = regexp.MustCompile(`^[A-Za-z_][A-Za-z0-9_]*$`)

func oldName(s string) string {
	if identRe.MatchString(s) {
		return s + "_old"
	}
	return s
}

// evalLemmas runs the eval/exhaust lemmas of one package as an injected Go test.
// Returns one pseudo-obligation per lemma.
func (e *Engine) evalLemmas(pkgPath string, lemmas []*Lemma, timeout time.Duration) []*Oblig {
	var src strings.Builder
	pkgName := pkgShort(pkgPath)
	if sp, ok := e.spkgs[pkgPath]; ok {
		pkgName = sp.Pkg.Name()
	}
	fmt.Fprintf(&src, "//go:build verif\n\npackage %s\n\nimport (\n\t\"fmt\"\n\t\"sync\"\n\t\"testing\"\n)\n\nvar _ = fmt.Sprint\nvar _ sync.Mutex\n\n"+parForallSrc, pkgName)
	evalPreds = map[string]string{}
	for k, pd := range e.contracts.Preds {
		if strings.HasPrefix(k, pkgPath+"::") {
			evalPreds[pd.Name] = pd.Body
		}
	}
	var obs []*Oblig
	for _, l := range lemmas {
		o := &Oblig{Fn: pkgShort(pkgPath) + ".lemma:" + l.Name, Name: pkgShort(pkgPath) + ".lemma:" + l.Name + "#" + l.Kind + ":" + l.Name + "#0",
			Kind: l.Kind, Pos: l.Pos, Solver: "exhaustive-evaluation(go test)", preSolved: true, goal: TFalse}
		obs = append(obs, o)
		body, cases, err := lemmaGoTest(l)
		if err != nil {
			o.Status = "error"
			o.Detail = err.Error()
			continue
		}
		o.Detail = fmt.Sprintf("%d cases", cases)
		o.Cases = cases
		src.WriteString(body)
	}
	out, err := e.runInjectedTest(pkgPath, "zz_gocv_lemma_test.go", src.String(), "TestGocvLemma_", timeout)
	for i, l := range lemmas {
		o := obs[i]
		if o.Status == "error" {
			continue
		}
		okLine := fmt.Sprintf("GOCV-OK lemma=%s ", l.Name)
		failLine := fmt.Sprintf("GOCV-FAIL lemma=%s ", l.Name)
		switch {
		case strings.Contains(out, failLine):
			o.Status = "refuted"
			j := strings.Index(out, failLine)
			end := strings.Index(out[j:], "\n")
			o.Model = out[j : j+end]
			o.Replayed = true
		case strings.Contains(out, okLine):
			o.Status = "proved"
		default:
			o.Status = "unknown"
			o.Model = truncate(out, 4000)
			if err != nil {
				o.Detail += " " + err.Error()
			}
		}
	}
	return obs
}

// lemmaGoTest emits a test function that enumerates the lemma's variables.
func lemmaGoTest(l *Lemma) (string, int64, error) {
	var sb strings.Builder
	fmt.Fprintf(&sb, "func TestGocvLemma_%s(t *testing.T) {\n", l.Name)
	var req, ens []string
	for _, r := range l.Requires {
		g, err := goExpr(r.Text)
		if err != nil {
			return "", 0, err
		}
		req = append(req, "("+g+")")
	}
	for _, en := range l.Ensures {
		g, err := goExpr(en.Text)
		if err != nil {
			return "", 0, err
		}
		ens = append(ens, "("+g+")")
	}
	cases := int64(1)
	type rng struct{ lo, hi string }
	var ranges []rng
	for _, v := range l.Vars {
		r, ok := l.Ranges[v.Name]
		if !ok {
			switch v.Type {
			case "T", "uint16":
				r = [2]string{"0", "65536"}
			case "byte", "uint8":
				r = [2]string{"0", "256"}
			case "bool":
				return "", 0, fmt.Errorf("bool variables unsupported in exhaust lemmas")
			default:
				return "", 0, fmt.Errorf("variable %s of type %s needs a `range` clause", v.Name, v.Type)
			}
		}
		ranges = append(ranges, rng{r[0], r[1]})
		var lo, hi int64
		fmt.Sscan(r[0], &lo)
		fmt.Sscan(r[1], &hi)
		if hi > lo {
			cases *= hi - lo
		}
	}
	// parallelise over the first variable
	sb.WriteString("\tvar mu sync.Mutex\n\tfailed := \"\"\n\tvar wg sync.WaitGroup\n\t_, _ = &mu, &wg\n")
	if len(l.Vars) == 0 {
		fmt.Fprintf(&sb, "\tif !(%s) { failed = \"closed statement is false\" }\n", strings.Join(ens, " && "))
	} else {
		v0 := l.Vars[0]
		fmt.Fprintf(&sb, "\tconst workers = 16\n\tlo0, hi0 := int(%s), int(%s)\n\tfor w := 0; w < workers; w++ {\n\t\twg.Add(1)\n\t\tgo func(w int) {\n\t\t\tdefer wg.Done()\n", ranges[0].lo, ranges[0].hi)
		fmt.Fprintf(&sb, "\t\t\tfor i0 := lo0 + w; i0 < hi0; i0 += workers {\n\t\t\t\t%s := %s(i0)\n\t\t\t\t_ = %s\n", v0.Name, v0.Type, v0.Name)
		indent := "\t\t\t\t"
		for k := 1; k < len(l.Vars); k++ {
			v := l.Vars[k]
			fmt.Fprintf(&sb, "%sfor i%d := int(%s); i%d < int(%s); i%d++ {\n%s\t%s := %s(i%d)\n%s\t_ = %s\n", indent, k, ranges[k].lo, k, ranges[k].hi, k, indent, v.Name, v.Type, k, indent, v.Name)
			indent += "\t"
		}
		if len(req) > 0 {
			fmt.Fprintf(&sb, "%sif !(%s) { continue }\n", indent, strings.Join(req, " && "))
		}
		var names, fmts []string
		for _, v := range l.Vars {
			names = append(names, v.Name)
			fmts = append(fmts, v.Name+"=%v")
		}
		fmt.Fprintf(&sb, "%sif !(%s) {\n%s\tmu.Lock()\n%s\tif failed == \"\" { failed = fmt.Sprintf(\"%s\", %s) }\n%s\tmu.Unlock()\n%s\treturn\n%s}\n",
			indent, strings.Join(ens, " && "), indent, indent, strings.Join(fmts, " "), strings.Join(names, ", "), indent, indent, indent)
		for k := len(l.Vars) - 1; k >= 1; k-- {
			indent = indent[:len(indent)-1]
			fmt.Fprintf(&sb, "%s}\n", indent)
		}
		sb.WriteString("\t\t\t}\n\t\t}(w)\n\t}\n\twg.Wait()\n")
	}
	fmt.Fprintf(&sb, "\tif failed != \"\" {\n\t\tfmt.Printf(\"GOCV-FAIL lemma=%s case: %%s\\n\", failed)\n\t\tt.Fail()\n\t} else {\n\t\tfmt.Printf(\"GOCV-OK lemma=%s cases=%d\\n\")\n\t}\n}\n\n", l.Name, l.Name, cases)
	return sb.String(), cases, nil
}

// runInjectedTest compiles an extra in-package test file into pkgPath through
// `go test -overlay` (nothing is written into the repository) and runs it.
func (e *Engine) runInjectedTest(pkgPath, fileName, src, runPattern string, timeout time.Duration) (string, error) {
	rel := strings.TrimPrefix(strings.TrimPrefix(pkgPath, repoMod), "/")
	dir := filepath.Join(e.repoDir, rel)
	tmp, err := os.MkdirTemp("", "gocv_inject")
	if err != nil {
		return "", err
	}
	defer os.RemoveAll(tmp)
	srcFile := filepath.Join(tmp, fileName)
	if err := os.WriteFile(srcFile, []byte(src), 0644); err != nil {
		return "", err
	}
	ov := map[string]map[string]string{"Replace": {filepath.Join(dir, fileName): srcFile}}
	ob, _ := json.Marshal(ov)
	ovFile := filepath.Join(tmp, "overlay.json")
	os.WriteFile(ovFile, ob, 0644)
	ctx, cancel := context.WithTimeout(context.Background(), timeout+30*time.Second)
	defer cancel()
	cmd := exec.CommandContext(ctx, "go", "test", "-tags", "verif", "-overlay", ovFile, "-vet=off", "-count=1",
		"-timeout", fmt.Sprintf("%ds", int(timeout.Seconds())), "-v", "-run", runPattern, ".")
	cmd.Dir = dir
	cmd.Env = append(os.Environ(), "GOFLAGS=-mod=mod", "GOPROXY=off", "GOSUMDB=off", "GOTOOLCHAIN=local")
	var out bytes.Buffer
	cmd.Stdout = &out
	cmd.Stderr = &out
	err = cmd.Run()
	return out.String(), err
}

const parForallSrc = `// gocvParForall evaluates f on [lo,hi) on 16 goroutines.
func gocvParForall(lo, hi int, f func(int) bool) bool {
	var wg sync.WaitGroup
	ok := make([]bool, 16)
	for w := 0; w < 16; w++ {
		wg.Add(1)
		go func(w int) {
			defer wg.Done()
			ok[w] = true
			for i := lo + w; i < hi; i += 16 {
				if !f(i) {
					ok[w] = false
					return
				}
			}
		}(w)
	}
	wg.Wait()
	for _, b := range ok {
		if !b {
			return false
		}
	}
	return true
}

`
