package main

import (
	"sort"
	"go/ast"
	"go/parser"
	"fmt"
	"go/token"
	"go/types"
	"strings"

	"golang.org/x/tools/go/ssa"
)

type effects struct {
	all    bool
	sorts  map[Sort]bool
	ghosts map[string]bool
	allocs bool
}

func (fc *FnCtx) staticCallee(cc *ssa.CallCommon) *ssa.Function {
	if cc.IsInvoke() {
		return nil
	}
	switch v := cc.Value.(type) {
	case *ssa.Function:
		return v
	case *ssa.MakeClosure:
		return v.Fn.(*ssa.Function)
	}
	return nil
}

func fullName(fn *ssa.Function) string {
	return fn.String()
}

// callEffects summarises the heap effect of a call for loop havocking.
func (fc *FnCtx) callEffects(cc *ssa.CallCommon) effects {
	eff := effects{sorts: map[Sort]bool{}, ghosts: map[string]bool{}}
	if b, ok := cc.Value.(*ssa.Builtin); ok {
		switch b.Name() {
		case "append", "copy":
			eff.allocs = true
			if st, ok := cc.Args[0].Type().Underlying().(*types.Slice); ok {
				fc.sortsOfType(st.Elem(), eff.sorts)
			} else {
				for _, hs := range heapSorts {
					eff.sorts[hs] = true
				}
			}
		case "delete":
			eff.sorts["mdom"] = true
		}
		return eff
	}
	callee := fc.staticCallee(cc)
	if callee == nil {
		if cc.IsInvoke() {
			if ic := fc.eng.ifaceContract(cc); ic != nil {
				return fc.contractEffects(ic)
			}
		}
		eff.all = true
		eff.allocs = true
		return eff
	}
	if fc.eng.isSpecFn(callee) {
		return eff
	}
	if c := fc.eng.contractFor(callee); c != nil && fc.logicalCompatible(c) {
		eff := fc.contractEffects(c)
		if ms, ok := fc.modSorts(c, callee); ok {
			eff.sorts = ms
		}
		if !c.Assumed {
			for g := range fc.eng.ghostsTouchedByBody(callee) {
				eff.ghosts[g] = true
			}
		}
		return eff
	}
	if m, ok := libModels[fullName(callee)]; ok {
		return m.eff
	}
	eff.all = true
	eff.allocs = true
	if fc.eng.isRepoFunc(callee) {
		for g := range fc.eng.ghostsTouchedByBody(callee) {
			eff.ghosts[g] = true
		}
	}
	return eff
}

func (fc *FnCtx) contractEffects(c *Contract) effects {
	eff := effects{sorts: map[Sort]bool{}, ghosts: map[string]bool{}}
	for _, g := range c.GhostUpd {
		eff.ghosts[g.Var] = true
	}
	if c.Pure {
		return eff
	}
	eff.allocs = true
	if c.HasMod {
		if len(c.Modifies) > 0 {
			for _, hs := range heapSorts {
				eff.sorts[hs] = true
			}
			eff.sorts["mdom"] = true
		}
		return eff
	}
	eff.all = true
	return eff
}

// ---------------------------------------------------------------------

func (fc *FnCtx) call(ins ssa.Instruction, cc *ssa.CallCommon) {
	var resVal ssa.Value
	if v, ok := ins.(ssa.Value); ok {
		resVal = v
	}
	setRes := func(v Value) {
		if fc.lastCall == nil {
			fc.lastCall = map[string]Value{}
		}
		fc.lastCall[calleeDisplayName(cc)] = v
		if resVal != nil {
			if v.K == KOpaque {
				fc.vals[resVal] = v
			} else {
				fc.setVal(resVal, v)
			}
		}
	}
	var args []Value
	for _, a := range cc.Args {
		args = append(args, fc.val(a))
	}
	pos := ins.Pos()
	fc.callAsserts(ins, cc, args, pos)
	if b, ok := cc.Value.(*ssa.Builtin); ok {
		setRes(fc.builtin(b, cc, args, pos, resVal))
		return
	}
	if cc.IsInvoke() {
		recv := fc.val(cc.Value)
		if recv.K == KIface {
			fc.oblige("nil", fc.desc(pos, "invoke "+cc.Method.Name()), pos, Not(Eq(recv.E[0].T, IntLit(0))))
		}
		if ic := fc.eng.ifaceContract(cc); ic != nil && ic.Pure && ic.Assumed && strings.Contains(ic.Func, ").* [") && cc.Signature().Results().Len() == 1 {
			// pure callback with a result: an uninterpreted function of receiver and arguments
			if v, ok := fc.ifaceMethodUF(ifaceName(cc), cc.Method.Name(), recv, args, cc.Signature().Results().At(0).Type()); ok {
				fc.usedAssumed[ic.Pkg+"::"+ic.Func] = true
				setRes(v)
				return
			}
		}
		if ic := fc.eng.ifaceContract(cc); ic != nil {
			// bind parameters by the interface method's signature
			sig := cc.Method.Type().(*types.Signature)
			names := []string{}
			typs := []types.Type{}
			for i := 0; i < sig.Params().Len(); i++ {
				n := sig.Params().At(i).Name()
				if n == "" || n == "_" {
					n = fmt.Sprintf("arg%d", i)
				}
				names = append(names, n)
				typs = append(typs, sig.Params().At(i).Type())
			}
			setRes(fc.applyContract(ic, "("+ifaceName(cc)+")."+cc.Method.Name(), names, typs, args, sig.Results(), pos, nil))
			return
		}
		if m, ok := libIfaceModels[ifaceName(cc)+"."+cc.Method.Name()]; ok {
			setRes(m(fc, cc, append([]Value{recv}, args...), pos, resVal))
			return
		}
		fc.notes = append(fc.notes, "unmodelled interface call "+ifaceName(cc)+"."+cc.Method.Name())
		fc.havocAll("invoke")
		fc.havocAllGhosts()
		setRes(fc.freshResult(cc.Signature().Results()))
		return
	}
	callee := fc.staticCallee(cc)
	if callee == nil {
		// dynamic call of a function value
		setRes(fc.dynamicCall(cc, args, pos))
		return
	}
	if fc.eng.isSpecFn(callee) {
		setRes(fc.specFnCallSSA(callee, args))
		return
	}
	// a contract with logical variables cannot be applied at a call site (the caller would have
	// to supply witnesses): the callee is then treated like a function without contract
	if c := fc.eng.contractFor(callee); c != nil && fc.logicalCompatible(c) {
		var names []string
		var typs []types.Type
		for _, p := range callee.Params {
			names = append(names, p.Name())
			typs = append(typs, p.Type())
		}
		// closure call: captured variables are visible to the contract by name
		if mc, ok := cc.Value.(*ssa.MakeClosure); ok {
			for i, fv := range callee.FreeVars {
				pt, isPtr := fv.Type().Underlying().(*types.Pointer)
				bp := fc.val(mc.Bindings[i])
				if isPtr && bp.K == KPtr {
					names = append(names, fv.Name())
					typs = append(typs, pt.Elem())
					args = append(args, fc.load(fc.cur, pt.Elem(), bp.Obj(), bp.Off()))
					names = append(names, "&"+fv.Name())
					typs = append(typs, fv.Type())
					args = append(args, bp)
				}
			}
		}
		// a parameter the callee's contract declares pure must be given a provably pure function
		for i, p := range callee.Params {
			if c.pureParam(p.Name()) && i < len(cc.Args) {
				if fv, isFn := cc.Args[i].(*ssa.Function); isFn {
					// a named function (or a closure without captured variables) passed as a value:
					// it denotes the pure function of its own contract
					fc.closureAxiom(nil, fv, IntLit(fc.eng.funcID(fv)))
				}
				g := TTrue
				if !fc.eng.pureFuncValue(fc.fn, cc.Args[i]) {
					g = TFalse
				}
				fc.oblige("pure-param", relName(callee)+": argument "+p.Name()+" is a function without side effects", pos, g)
			}
		}
		setRes(fc.applyContract(c, relName(callee), names, typs, args, callee.Signature.Results(), pos, callee))
		return
	}
	if m, ok := libModels[fullName(callee)]; ok {
		fc.usedAssumed["lib:"+fullName(callee)] = true
		setRes(m.fn(fc, cc, args, pos, resVal))
		return
	}
	if fc.eng.isRepoFunc(callee) && fc.eng.simpleScalarFn(callee, 0) {
		// a small helper without contract that only computes on scalars (no loops, no memory, no
		// calls other than to helpers of the same kind): its result is its body, exactly as for a
		// spec function. (Extracting such a helper from verified code does not change any proof.)
		if def := fc.eng.specFnDef(callee, fc.mode); def.Err == "" {
			fc.calledRepo[callee] = true
			setRes(fc.specFnCallSSA(callee, args))
			fc.helperSafety(callee, args, pos)
			return
		}
	}
	if fc.eng.isRepoFunc(callee) && fc.eng.heapPure(callee) {
		// helper without contract whose body provably writes only objects it allocates itself
		fc.calledRepo[callee] = true
		for i, p := range callee.Params {
			if i < len(args) {
				if t := nonNilTerm(args[i], p.Type()); !t.IsZero() {
					fc.oblige("pre", relName(callee)+": "+p.Name()+" != nil", pos, t)
				}
			}
		}
		pre := fc.cur.clone()
		nn := fc.freshConst("next_call", SInt)
		fc.assume(Ge(nn, fc.cur.next))
		fc.cur.next = nn
		fc.havocFresh(fc.cur, pre)
		fc.havocGhosts(fc.cur, fc.eng.ghostsTouchedByBody(callee))
		setRes(fc.freshResult(callee.Signature.Results()))
		return
	}
	if fc.eng.isRepoFunc(callee) {
		fc.calledRepo[callee] = true
		for i, p := range callee.Params {
			if i < len(args) {
				if t := nonNilTerm(args[i], p.Type()); !t.IsZero() {
					fc.oblige("pre", relName(callee)+": "+p.Name()+" != nil", pos, t)
				}
			}
		}
		// closure bodies read/write captured variables: unknown effect
		fc.havocAll("call " + relName(callee))
		fc.havocGhosts(fc.cur, fc.eng.ghostsTouchedByBody(callee))
		setRes(fc.freshResult(callee.Signature.Results()))
		return
	}
	fc.notes = append(fc.notes, "unmodelled library call "+fullName(callee))
	fc.usedAssumed["unmodelled:"+fullName(callee)] = true
	fc.havocAll("lib")
	setRes(fc.freshResult(callee.Signature.Results()))
}

func ifaceName(cc *ssa.CallCommon) string {
	t := cc.Value.Type()
	if n, ok := t.(*types.Named); ok {
		return n.Obj().Name()
	}
	return typeStr(t)
}

// ifaceContract finds an assumed contract for an interface method: "(Iface).Method".
func (e *Engine) ifaceContract(cc *ssa.CallCommon) *Contract {
	n, ok := cc.Value.Type().(*types.Named)
	if !ok || n.Obj().Pkg() == nil {
		return nil
	}
	k := contractKey(n.Obj().Pkg().Path(), "("+n.Obj().Name()+")."+cc.Method.Name())
	if c, ok := e.contracts.Funcs[k]; ok {
		c.Bound = true
		return c
	}
	if e.contracts.IfacePure[contractKey(n.Obj().Pkg().Path(), n.Obj().Name())] {
		return &Contract{Pkg: n.Obj().Pkg().Path(), Func: "(" + n.Obj().Name() + ").* [delegate callbacks: no effect on gopar state or files]", Pure: true, Assumed: true, HasMod: true, Loops: map[int]*LoopContract{}}
	}
	// embedded interface: search by method name in the same package
	for key, c := range e.contracts.Funcs {
		if strings.HasPrefix(key, n.Obj().Pkg().Path()+"::(") && strings.HasSuffix(key, ")."+cc.Method.Name()) && c.Assumed {
			if it, ok := n.Underlying().(*types.Interface); ok {
				inner := key[strings.Index(key, "::(")+3 : strings.LastIndex(key, ").")]
				for i := 0; i < it.NumEmbeddeds(); i++ {
					if en, ok := it.EmbeddedType(i).(*types.Named); ok && en.Obj().Name() == inner {
						c.Bound = true
						return c
					}
				}
			}
		}
	}
	return nil
}

func (fc *FnCtx) freshResult(res *types.Tuple) Value {
	switch res.Len() {
	case 0:
		return Value{K: KTuple}
	case 1:
		v := fc.freshValue("ret", shapeOf(res.At(0).Type(), fc.mode))
		for _, f := range fc.typeFacts(res.At(0).Type(), v, fc.cur.next) {
			fc.assume(f)
		}
		return v
	}
	v := fc.freshValue("ret", shapeOf(res, fc.mode))
	for _, f := range fc.typeFacts(res, v, fc.cur.next) {
		fc.assume(f)
	}
	return v
}

// havocGhosts replaces the given ghost variables by unknown values.
func (fc *FnCtx) havocGhosts(st *State, gs map[string]bool) {
	var names []string
	for g := range gs {
		if _, ok := st.ghost[g]; ok {
			names = append(names, g)
		}
	}
	sort.Strings(names)
	for _, g := range names {
		st.ghost[g] = fc.freshConst("G_"+g+"_call", st.ghost[g].Sort)
	}
}

func (fc *FnCtx) havocAllGhosts() {
	all := map[string]bool{}
	for g := range fc.cur.ghost {
		all[g] = true
	}
	fc.havocGhosts(fc.cur, all)
}

// applyContract: assert pre, apply frame, assume post.
// logicalCompatible: a contract with logical variables can be applied at a call site only if the
// caller's own contract declares logical variables of the same names; the callee's are then
// instantiated with the caller's (same name = same object). Otherwise the callee is treated as
// a function without contract.
func (fc *FnCtx) logicalCompatible(c *Contract) bool {
	if c.LogicalDef {
		return true // witnesses exist by declaration: fresh symbols at the call site
	}
	for _, lv := range c.Logical {
		if _, ok := fc.logical[lv]; !ok {
			return false
		}
	}
	return true
}

func (fc *FnCtx) applyContract(c *Contract, cname string, names []string, typs []types.Type, args []Value, results *types.Tuple, pos token.Pos, callee *ssa.Function) Value {
	if c.Assumed {
		fc.usedAssumed[c.Pkg+"::"+c.Func] = true
		fc.eng.assumedUsed[c.Pkg+"::"+c.Func] = true
	}
	pre := fc.cur.clone()
	env := fc.newEnv(pre)
	env.callee = true
	env.old = pre
	if callee != nil {
		f := callee
		for f.Pkg == nil && f.Parent() != nil {
			f = f.Parent()
		}
		if f.Pkg != nil {
			env.pkg = f.Pkg.Pkg
		}
	} else if sp := fc.eng.pkgByPath(c.Pkg); sp != nil {
		env.pkg = sp
	}
	for i, n := range names {
		if i < len(args) {
			env.binds[n] = binding{args[i], typs[i]}
		}
	}
	freshLogical := map[string]bool{}
	for _, lv := range c.Logical {
		if b, ok := fc.logical[lv]; ok {
			env.binds[lv] = b
			continue
		}
		// the caller has no logical variable of this name: the callee's contract declares that the
		// clauses mentioning it only define it, so a witness exists; a fresh symbol stands for it
		var lt types.Type = specIntType
		if te, ok := c.LogicalTypes[lv]; ok && callee != nil && callee.Pkg != nil {
			at := token.NoPos
			sc := callee.Pkg.Pkg.Scope()
			for _, n := range sc.Names() {
				o := sc.Lookup(n)
				if strings.Contains(fc.eng.prog.Fset.Position(o.Pos()).Filename, "verif_contracts") {
					at = o.Pos()
					break
				}
			}
			if tv, err := types.Eval(fc.eng.prog.Fset, callee.Pkg.Pkg, at, te); err == nil && tv.IsType() {
				lt = tv.Type
			}
		}
		sh := shapeOf(lt, fc.mode)
		if sh.K != KLeaf {
			continue
		}
		env.binds[lv] = binding{Leaf(fc.freshConst("witness_"+lv, sh.Sort)), lt}
		freshLogical[lv] = true
		fc.usedAssumed[cname+": requires clauses mentioning logical "+lv+" are definitional (a witness exists)"] = true
	}
	mentionsFresh := func(text string) bool {
		for lv := range freshLogical {
			if containsIdent(text, lv) {
				return true
			}
		}
		return false
	}
	env.oldBinds = map[string]binding{}
	for k, v := range env.binds {
		env.oldBinds[k] = v
	}
	site := fc.desc(pos, cname)
	for i, n := range names {
		if i < len(args) && !c.isNilable(n) && !strings.HasPrefix(n, "&") {
			if t := nonNilTerm(args[i], typs[i]); !t.IsZero() {
				fc.oblige("pre", cname+": "+n+" != nil", pos, t)
			}
		}
	}
	for _, r := range c.Requires {
		t, sks, err := fc.specBoolGoal(env, r.Text)
		if err != nil {
			fc.unbound = append(fc.unbound, fmt.Sprintf("call %s requires %q: %v", cname, r.Text, err))
			continue
		}
		if mentionsFresh(r.Text) {
			// definitional clause about a witness chosen here: assumed, not proved
			if qt, qerr := fc.specBool(env, r.Text); qerr == nil {
				fc.assume(qt)
			}
			continue
		}
		preKind := "pre"
		if r.Strict {
			preKind = "pre-strict"
		}
		o := fc.oblige(preKind, cname+": "+r.Text, pos, t)
		if len(sks) > 0 {
			// goal-side quantifiers were skolemised: instantiate the hypotheses at the skolem
			// constants, and keep the quantified form (not the skolemised one) as the fact
			fc.addInsts(o, env, sks)
			fc.dropLastAssertFact()
			if qt, qerr := fc.specBool(env, r.Text); qerr == nil {
				fc.seq++
				fc.facts = append(fc.facts, Fact{blk: fc.curBlk, seq: fc.seq, t: qt, isAssert: true})
			}
		}
	}
	if c.Panics != nil {
		t, err := fc.specBool(env, c.Panics.Text)
		if err != nil {
			fc.unbound = append(fc.unbound, fmt.Sprintf("call %s panics %q: %v", cname, c.Panics.Text, err))
		} else {
			goal := Not(t)
			if fc.c != nil && fc.c.Panics != nil {
				// a panic of the callee is permitted where the caller's own contract permits a panic
				if ct, cerr := fc.specBool(fc.entryEnv(), fc.c.Panics.Text); cerr == nil {
					goal = Or(goal, ct)
				}
			}
			fc.oblige("pre-nopanic", cname+": !("+c.Panics.Text+")", pos, goal)
		}
	}
	_ = site
	if fc.initPhase {
		// during initialisation the global invariants a callee relies on must be proved
		for _, g := range c.Globals {
			genv := fc.newEnv(pre)
			genv.callee = true
			genv.pkg = env.pkg
			t, err := fc.specBool(genv, g)
			if err != nil {
				fc.unbound = append(fc.unbound, fmt.Sprintf("call %s global %q: %v", cname, g, err))
				continue
			}
			fc.oblige("pre-global", cname+": "+g, pos, t)
		}
	}
	// effects
	st := fc.cur
	if !c.Pure {
		if c.HasMod {
			if len(c.Modifies) > 0 {
				regs, err := fc.regions(env, c.Modifies)
				if err != nil {
					fc.unbound = append(fc.unbound, fmt.Sprintf("call %s modifies: %v", cname, err))
					fc.havocAll("call")
				} else {
					var only map[Sort]bool
					if callee != nil {
						if ms, ok := fc.modSorts(c, callee); ok {
							only = ms
						}
					}
					fc.havocRegions(st, pre, regs, only)
				}
			}
			nn := fc.freshConst("next_call", SInt)
			fc.assume(Ge(nn, st.next))
			st.next = nn
			// objects allocated by the callee are unknown
			if len(c.Modifies) == 0 {
				fc.havocFresh(st, pre)
			}
		} else {
			fc.havocAll("call " + cname)
		}
	}
	for _, pz := range c.Preserves {
		eqs, err := fc.preservesEqs(env, pz, pre, st)
		if err != nil {
			fc.unbound = append(fc.unbound, fmt.Sprintf("call %s preserves %q: %v", cname, pz, err))
			continue
		}
		fc.assume(eqs)
	}
	// ghost state the callee's body may change (through its own callees): unknown after the call,
	// constrained only by what the callee's postconditions say about it
	if callee != nil && !c.Assumed && !c.Pure {
		fc.havocGhosts(st, fc.eng.ghostsTouchedByBody(callee))
	}
	// results
	res := fc.freshResult(results)
	post := fc.newEnv(st)
	post.callee = true
	post.old = pre
	post.pkg = env.pkg
	post.oldBinds = env.oldBinds
	for k, v := range env.binds {
		post.binds[k] = v
	}
	switch results.Len() {
	case 0:
	case 1:
		post.binds["result"] = binding{res, results.At(0).Type()}
		post.binds["result0"] = binding{res, results.At(0).Type()}
		if n := results.At(0).Name(); n != "" && n != "_" {
			post.binds[n] = binding{res, results.At(0).Type()}
		}
	default:
		for i := 0; i < results.Len(); i++ {
			b := binding{res.E[i], results.At(i).Type()}
			post.binds[fmt.Sprintf("result%d", i)] = b
			if n := results.At(i).Name(); n != "" && n != "_" {
				post.binds[n] = b
			}
		}
	}
	for _, en := range c.Ensures {
		if en.GoalOnly {
			continue // proved at the callee's returns where possible, never assumed here
		}
		t, err := fc.specBool(post, en.Text)
		if err != nil {
			fc.unbound = append(fc.unbound, fmt.Sprintf("call %s ensures %q: %v", cname, en.Text, err))
			continue
		}
		fc.assume(t)
	}
	for _, gu := range c.GhostUpd {
		if _, ok := st.ghost[gu.Var]; !ok {
			fc.unbound = append(fc.unbound, fmt.Sprintf("call %s ghost-set: unknown ghost %s", cname, gu.Var))
			continue
		}
		gpost := post.sub()
		sv, err := fc.specExpr(gpost, gu.Expr)
		if err != nil {
			fc.unbound = append(fc.unbound, fmt.Sprintf("call %s ghost-set %s: %v", cname, gu.Var, err))
			continue
		}
		if sv.isConst {
			sv = gpost.coerce(sv, ghostType(fc.eng.ghosts[gu.Var].Type))
		}
		if sv.v.K != KLeaf || sv.v.T.Sort != st.ghost[gu.Var].Sort {
			fc.unbound = append(fc.unbound, fmt.Sprintf("call %s ghost-set %s: sort mismatch", cname, gu.Var))
			continue
		}
		st.ghost[gu.Var] = fc.define(fc.freshName("G_"+gu.Var), sv.v.T)
	}
	for _, fr := range c.Fresh {
		if b, ok := post.binds[fr]; ok {
			switch b.v.K {
			case KPtr, KSlice:
				fc.assume(Or(Ge(b.v.Obj(), pre.next), Eq(b.v.Obj(), IntLit(0))))
			}
		}
	}
	return res
}

func (e *Engine) pkgByPath(path string) *types.Package {
	if sp, ok := e.spkgs[path]; ok {
		return sp.Pkg
	}
	return nil
}

// region is a contiguous range of cells of one object.
type region struct {
	obj, lo, hi Term
	whole       bool // the whole object (maps)
	// family: `each r lo hi : expr` -- the union over r in [flo, fhi) of the regions expr(r)
	fam      string
	flo, fhi Term
}

// regions evaluates modifies items in the given env (pre-state).
func (fc *FnCtx) regions(env *Env, items []string) ([]region, error) {
	var out []region
	for _, it := range items {
		text := strings.TrimSpace(it)
		star := false
		if strings.HasPrefix(text, "each ") {
			colon := strings.Index(text, ":")
			hd := strings.Fields(text[5:max(colon, 5)])
			if colon < 0 || len(hd) != 3 {
				return nil, fmt.Errorf("modifies item %q: want `each r lo hi : slice-expr`", it)
			}
			lo, err := fc.specExpr(env, hd[1])
			if err != nil {
				return nil, err
			}
			hi, err := fc.specExpr(env, hd[2])
			if err != nil {
				return nil, err
			}
			lot, ok1 := fc.toIntTerm(env.coerce(lo, specIntType))
			hit, ok2 := fc.toIntTerm(env.coerce(hi, specIntType))
			if !ok1 || !ok2 {
				return nil, fmt.Errorf("modifies item %q: bounds are not integers", it)
			}
			fc.nfam++
			bv := Term{fmt.Sprintf("r!qfam%d", fc.nfam), SInt}
			sub := env.sub()
			sub.binds[hd[0]] = binding{Leaf(bv), specIntType}
			sv, err := fc.specExpr(sub, strings.TrimSpace(text[colon+1:]))
			if err != nil {
				return nil, err
			}
			if sv.v.K != KSlice {
				return nil, fmt.Errorf("modifies item %q: family member is not a slice", it)
			}
			c := int64(1)
			if st, ok := sv.t.Underlying().(*types.Slice); ok {
				c = cellsOf(st.Elem())
			}
			out = append(out, region{obj: sv.v.Obj(), lo: sv.v.Off(), hi: Add(sv.v.Off(), Mul(sv.v.Len(), IntLit(c))), fam: bv.S, flo: lot, fhi: hit})
			continue
		}
		if strings.HasPrefix(text, "*") {
			star = true
			text = text[1:]
		}
		sv, err := fc.specExpr(env, text)
		if err != nil {
			return nil, err
		}
		switch {
		case star && sv.v.K == KPtr:
			pt := sv.t.Underlying().(*types.Pointer)
			out = append(out, region{obj: sv.v.Obj(), lo: sv.v.Off(), hi: Add(sv.v.Off(), IntLit(cellsOf(pt.Elem())))})
		case sv.v.K == KSlice:
			c := int64(1)
			if st, ok := sv.t.Underlying().(*types.Slice); ok {
				c = cellsOf(st.Elem())
			}
			out = append(out, region{obj: sv.v.Obj(), lo: sv.v.Off(), hi: Add(sv.v.Off(), Mul(sv.v.Len(), IntLit(c)))})
		case sv.v.K == KLeaf && sv.v.T.Sort == SInt:
			out = append(out, region{obj: sv.v.T, whole: true})
		default:
			return nil, fmt.Errorf("modifies item %q is not a slice, *pointer or map", it)
		}
	}
	return out, nil
}

func inRegions(regs []region, o, f Term) Term {
	var cs []Term
	for _, r := range regs {
		switch {
		case r.whole:
			cs = append(cs, Eq(o, r.obj))
		case r.fam != "":
			bv := Term{r.fam, SInt}
			body := And(Le(r.flo, bv), Lt(bv, r.fhi), Eq(o, r.obj), Le(r.lo, f), Lt(f, r.hi))
			cs = append(cs, Term{fmt.Sprintf("(exists ((%s Int)) %s)", r.fam, body.S), SBool})
		default:
			cs = append(cs, And(Eq(o, r.obj), Le(r.lo, f), Lt(f, r.hi)))
		}
	}
	return Or(cs...)
}

// frameParts splits a frame formula into its per-heap conjuncts, each labelled by the heap it
// talks about, so that every heap sort is a separate (smaller) obligation.
func frameParts(f Term) (labels []string, parts []Term) {
	ps := []string{f.S}
	if strings.HasPrefix(f.S, "(and ") {
		ps = splitSexprs(f.S[5 : len(f.S)-1])
	}
	for _, p := range ps {
		label := "maps"
		if i := strings.LastIndex(p, ":pattern ((select (select H"); i >= 0 {
			rest := p[i+len(":pattern ((select (select "):]
			name := rest
			if j := strings.IndexAny(rest, " )"); j >= 0 {
				name = rest[:j]
			}
			label = "heap"
			for _, tag := range []string{"bool", "bv8", "bv16", "bv32", "bv64", "int", "str", "f64"} {
				if strings.Contains(name, "_"+tag) {
					label = tag
				}
			}
		}
		labels = append(labels, label)
		parts = append(parts, Term{p, SBool})
	}
	return
}

// frameFormula: every pre-existing cell outside regs is unchanged between pre and post.
func frameFormula(pre, post *State, regs []region) Term {
	var cs []Term
	o := Term{"o!fr", SInt}
	f := Term{"f!fr", SInt}
	guard := And(Lt(o, pre.next), Not(inRegions(regs, o, f)))
	for _, hs := range heapSorts {
		if pre.heap[hs].S == post.heap[hs].S {
			continue
		}
		body := Implies(guard, Eq(Select(Select(post.heap[hs], o), f), Select(Select(pre.heap[hs], o), f)))
		cs = append(cs, Term{fmt.Sprintf("(forall ((o!fr Int) (f!fr Int)) (! %s :pattern (%s)))", body.S, Select(Select(post.heap[hs], o), f).S), SBool})
	}
	if pre.mdom.S != post.mdom.S || pre.mlen.S != post.mlen.S {
		var wh []Term
		for _, r := range regs {
			if r.whole {
				wh = append(wh, Eq(o, r.obj))
			}
		}
		g2 := And(Lt(o, pre.next), Not(Or(wh...)))
		body := Implies(g2, And(Eq(Select(post.mdom, o), Select(pre.mdom, o)), Eq(Select(post.mlen, o), Select(pre.mlen, o))))
		cs = append(cs, Term{fmt.Sprintf("(forall ((o!fr Int)) %s)", body.S), SBool})
	}
	return And(cs...)
}

// modSorts: the heap sorts a callee with a `modifies` list can change, from the static types
// of the listed items. Only for callees without reference-typed results (a returned fresh
// object may have cells of any sort). ok=false means "assume every sort".
func (fc *FnCtx) modSorts(c *Contract, callee *ssa.Function) (map[Sort]bool, bool) {
	if !c.HasMod || len(c.Modifies) == 0 || callee == nil {
		return nil, false
	}
	res := callee.Signature.Results()
	for i := 0; i < res.Len(); i++ {
		switch res.At(i).Type().Underlying().(type) {
		case *types.Basic:
		default:
			return nil, false
		}
	}
	scope := map[string]types.Type{}
	for _, p := range callee.Params {
		scope[p.Name()] = p.Type()
	}
	for _, fv := range callee.FreeVars {
		if pt, ok := fv.Type().Underlying().(*types.Pointer); ok {
			scope[fv.Name()] = pt.Elem()
		}
	}
	out := map[Sort]bool{}
	staticPredLookup = func(name string) ([]string, string, bool) {
		if callee.Pkg == nil {
			return nil, "", false
		}
		pd, ok := fc.eng.contracts.Preds[contractKey(callee.Pkg.Pkg.Path(), name)]
		if !ok {
			return nil, "", false
		}
		return pd.Params, pd.Body, true
	}
	defer func() { staticPredLookup = nil }()
	for _, it := range c.Modifies {
		text := strings.TrimSpace(it)
		if strings.HasPrefix(text, "each ") {
			colon := strings.Index(text, ":")
			hd := strings.Fields(text[5:max(colon, 5)])
			if colon < 0 || len(hd) != 3 {
				return nil, false
			}
			scope[hd[0]] = types.Typ[types.Int]
			text = strings.TrimSpace(text[colon+1:])
		}
		star := strings.HasPrefix(text, "*")
		if star {
			text = text[1:]
		}
		ex, err := parser.ParseExpr(text)
		if err != nil {
			return nil, false
		}
		t := staticSpecType(ex, scope)
		if t == nil {
			return nil, false
		}
		switch u := t.Underlying().(type) {
		case *types.Slice:
			if star {
				return nil, false
			}
			fc.sortsOfType(u.Elem(), out)
		case *types.Pointer:
			if !star {
				return nil, false
			}
			fc.sortsOfType(u.Elem(), out)
		default:
			return nil, false
		}
	}
	return out, true
}

var staticPredLookup func(name string) (params []string, body string, ok bool)

func staticSpecType(e ast.Expr, scope map[string]types.Type) types.Type {
	switch x := e.(type) {
	case *ast.Ident:
		return scope[x.Name]
	case *ast.ParenExpr:
		return staticSpecType(x.X, scope)
	case *ast.CallExpr:
		if id, ok := x.Fun.(*ast.Ident); ok && id.Name == "old" && len(x.Args) == 1 {
			return staticSpecType(x.Args[0], scope)
		}
		if id, ok := x.Fun.(*ast.Ident); ok && staticPredLookup != nil {
			if params, body, found := staticPredLookup(id.Name); found && len(params) == len(x.Args) {
				sub := map[string]types.Type{}
				for k, v := range scope {
					sub[k] = v
				}
				for i, p := range params {
					sub[p] = staticSpecType(x.Args[i], scope)
					if sub[p] == nil {
						sub[p] = types.Typ[types.Int]
					}
				}
				if pe, err := parser.ParseExpr(body); err == nil {
					return staticSpecType(pe, sub)
				}
			}
		}
	case *ast.StarExpr:
		if t := staticSpecType(x.X, scope); t != nil {
			if pt, ok := t.Underlying().(*types.Pointer); ok {
				return pt.Elem()
			}
		}
	case *ast.SelectorExpr:
		t := staticSpecType(x.X, scope)
		if t == nil {
			return nil
		}
		if pt, ok := t.Underlying().(*types.Pointer); ok {
			t = pt.Elem()
		}
		if st, ok := t.Underlying().(*types.Struct); ok {
			for i := 0; i < st.NumFields(); i++ {
				if st.Field(i).Name() == x.Sel.Name {
					return st.Field(i).Type()
				}
			}
		}
	case *ast.IndexExpr:
		t := staticSpecType(x.X, scope)
		if t == nil {
			return nil
		}
		switch u := t.Underlying().(type) {
		case *types.Slice:
			return u.Elem()
		case *types.Array:
			return u.Elem()
		case *types.Pointer:
			if a, ok := u.Elem().Underlying().(*types.Array); ok {
				return a.Elem()
			}
		}
	case *ast.SliceExpr:
		t := staticSpecType(x.X, scope)
		if t == nil {
			return nil
		}
		switch u := t.Underlying().(type) {
		case *types.Slice:
			return t
		case *types.Array:
			return types.NewSlice(u.Elem())
		case *types.Pointer:
			if a, ok := u.Elem().Underlying().(*types.Array); ok {
				return types.NewSlice(a.Elem())
			}
		}
	}
	return nil
}

// havocRegions replaces all heaps by fresh ones constrained by the frame.
func (fc *FnCtx) havocRegions(st, pre *State, regs []region, only map[Sort]bool) {
	for _, hs := range heapSorts {
		if only != nil && !only[hs] {
			continue
		}
		st.heap[hs] = fc.freshConst("Hc_"+sortTag(hs), heapSort(hs))
	}
	hasMap := false
	for _, r := range regs {
		if r.whole {
			hasMap = true
		}
	}
	if hasMap {
		st.mdom = fc.freshConst("mdomc", st.mdom.Sort)
		st.mlen = fc.freshConst("mlenc", st.mlen.Sort)
	}
	fc.assume(frameFormula(pre, st, regs))
}

// havocFresh: a callee that modifies nothing may still allocate; pre-existing
// objects are unchanged, so heaps stay as they are (new objects are only
// reachable through results, whose contents the contract must describe).
func (fc *FnCtx) havocFresh(st, pre *State) {
	// new objects' contents are unconstrained: model by fresh heaps agreeing below pre.next
	for _, hs := range heapSorts {
		st.heap[hs] = fc.freshConst("Hn_"+sortTag(hs), heapSort(hs))
	}
	st.mdom = fc.freshConst("mdomn", st.mdom.Sort)
	st.mlen = fc.freshConst("mlenn", st.mlen.Sort)
	o := Term{"o!fr", SInt}
	one := func(a, b Term) {
		body := Implies(Lt(o, pre.next), Eq(Select(a, o), Select(b, o)))
		fc.assume(Term{fmt.Sprintf("(forall ((o!fr Int)) (! %s :pattern (%s)))", body.S, Select(a, o).S), SBool})
	}
	for _, hs := range heapSorts {
		one(st.heap[hs], pre.heap[hs])
	}
	one(st.mdom, pre.mdom)
	one(st.mlen, pre.mlen)
	fc.groundKeep(pre, st, nil)
}

// groundKeep states the "objects that existed before keep their contents" fact explicitly for
// the objects the function's pointer and slice parameters refer to (they exist since entry),
// for the heap sorts not listed in except. The quantified fact already implies these; stated
// as ground equalities they need no quantifier instantiation.
func (fc *FnCtx) groundKeep(pre, post *State, except map[Sort]bool) {
	names := make([]string, 0, len(fc.params))
	for n := range fc.params {
		names = append(names, n)
	}
	sort.Strings(names)
	seen := map[string]bool{}
	for _, n := range names {
		v := fc.params[n]
		if v.K != KPtr && v.K != KSlice {
			continue
		}
		obj := v.Obj()
		if seen[obj.S] {
			continue
		}
		seen[obj.S] = true
		for _, hs := range heapSorts {
			if except[hs] || pre.heap[hs].S == post.heap[hs].S {
				continue
			}
			fc.assume(Implies(Lt(obj, pre.next), Eq(Select(post.heap[hs], obj), Select(pre.heap[hs], obj))))
		}
	}
}

// funcFrame is the frame obligation of the function under verification at a return.
func (fc *FnCtx) funcFrame(cur *State) (Term, bool) {
	if fc.c == nil || !fc.c.HasMod {
		return Term{}, false
	}
	env := fc.entryEnv()
	regs, err := fc.regions(env, fc.c.Modifies)
	if err != nil {
		fc.unbound = append(fc.unbound, fmt.Sprintf("modifies: %v", err))
		return Term{}, false
	}
	f := frameFormula(fc.entry, cur, regs)
	if f.S == "true" {
		return f, false
	}
	return f, true
}

// loopFrame: the same frame, relative to function entry, as a loop invariant.
func (fc *FnCtx) loopFrame(li *LoopInfo, st *State) (Term, bool) {
	loopHas := li.lc != nil && li.lc.HasMod
	if fc.c == nil || (!fc.c.HasMod && !loopHas) {
		return Term{}, false
	}
	items := fc.c.Modifies
	if loopHas {
		items = li.lc.Modifies
	}
	env := fc.entryEnv()
	regs, err := fc.regions(env, items)
	if err != nil {
		return Term{}, false
	}
	f := frameFormula(fc.entry, st, regs)
	if f.S == "true" {
		return f, false
	}
	return f, true
}

// ---------------------------------------------------------------------
// builtins

func (fc *FnCtx) builtin(b *ssa.Builtin, cc *ssa.CallCommon, args []Value, pos token.Pos, res ssa.Value) Value {
	st := fc.cur
	switch b.Name() {
	case "len", "cap":
		a := args[0]
		var t Term
		switch u := cc.Args[0].Type().Underlying().(type) {
		case *types.Slice:
			if a.K == KSlice {
				if b.Name() == "len" {
					t = a.Len()
				} else {
					t = a.Cap()
				}
			}
		case *types.Basic:
			if a.K == KLeaf && a.T.Sort == SStr {
				t = strLen(a.T)
			}
		case *types.Map:
			if a.K == KLeaf {
				t = Ite(Eq(a.T, IntLit(0)), IntLit(0), Select(st.mlen, a.T)) // len(nil map) == 0
			}
		case *types.Array:
			t = IntLit(u.Len())
		case *types.Pointer:
			if arr, ok := u.Elem().Underlying().(*types.Array); ok {
				t = IntLit(arr.Len())
			}
		}
		if t.IsZero() {
			return fc.freshResult(types.NewTuple(types.NewVar(0, nil, "", types.Typ[types.Int])))
		}
		return Leaf(fc.fromIndex(t, types.Typ[types.Int]))
	case "append":
		return fc.appendBuiltin(cc, args, pos)
	case "copy":
		return fc.copyBuiltin(cc, args, pos)
	case "delete":
		m := args[0]
		mt := cc.Args[0].Type().Underlying().(*types.Map)
		if m.K == KLeaf {
			slot := fc.mapSlot(mt.Key(), args[1])
			dom := Select(st.mdom, m.T)
			indom := Select(dom, slot)
			st.mlen = Store(st.mlen, m.T, Ite(indom, Sub(Select(st.mlen, m.T), IntLit(1)), Select(st.mlen, m.T)))
			st.mdom = Store(st.mdom, m.T, Store(dom, slot, TFalse))
			fc.commitHeaps()
		}
		return Value{K: KTuple}
	case "print", "println":
		return Value{K: KTuple}
	case "min", "max":
		if len(args) == 2 && args[0].K == KLeaf {
			c, _ := fc.binop(token.LSS, args[0].T, args[1].T, cc.Args[0].Type(), cc.Args[1].Type())
			if b.Name() == "min" {
				return Leaf(Ite(c, args[0].T, args[1].T))
			}
			return Leaf(Ite(c, args[1].T, args[0].T))
		}
	case "ssa:wrapnilchk":
		fc.nilCheck(args[0], pos, "nil receiver")
		return args[0]
	case "recover":
		return IfaceV(IntLit(0), IntLit(0))
	case "close":
		return Value{K: KTuple}
	}
	fc.notes = append(fc.notes, "unmodelled builtin "+b.Name())
	if res != nil {
		return fc.freshValue("builtin", shapeOf(res.Type(), fc.mode))
	}
	return Value{K: KTuple}
}

func (fc *FnCtx) appendBuiltin(cc *ssa.CallCommon, args []Value, pos token.Pos) Value {
	st := fc.cur
	s, t := args[0], args[1]
	sliceT, ok := cc.Args[0].Type().Underlying().(*types.Slice)
	if !ok || s.K != KSlice {
		fc.havocAll("append")
		return fc.freshValue("append", shapeOf(cc.Args[0].Type(), fc.mode))
	}
	elem := sliceT.Elem()
	c := IntLit(cellsOf(elem))
	var tlen Term
	var tIsStr bool
	switch {
	case t.K == KSlice:
		tlen = t.Len()
	case t.K == KLeaf && t.T.Sort == SStr:
		tlen = strLen(t.T)
		tIsStr = true
	default:
		fc.havocAll("append")
		return fc.freshValue("append", shapeOf(cc.Args[0].Type(), fc.mode))
	}
	newLen := fc.define(fc.freshName("applen"), Add(s.Len(), tlen))
	grow := fc.define(fc.freshName("grow"), Gt(newLen, s.Cap()))
	fresh := fc.define(fc.freshName("obj_app"), st.next)
	st.next = fc.define(fc.freshName("next"), Add(st.next, IntLit(1)))
	fc.assume(Eq(otypeOf(fresh), IntLit(fc.eng.typeIDByName(arrTag(elem)))))
	newCap := fc.freshConst("appcap", SInt)
	fc.assume(And(Ge(newCap, newLen), Le(newCap, Term{"maxSliceCap", SInt})))
	fc.assume(Le(Mul(newLen, IntLit(fc.eng.sizeofType(elem))), Term{"maxAlloc", SInt}))
	obj := fc.defineEq(fc.freshName("appobj"), Ite(grow, fresh, s.Obj()))
	off := fc.defineEq(fc.freshName("appoff"), Ite(grow, IntLit(0), s.Off()))
	cp := fc.defineEq(fc.freshName("appcap"), Ite(grow, newCap, s.Cap()))
	sorts := map[Sort]bool{}
	fc.sortsOfType(elem, sorts)
	k := Term{"k!q", SInt}
	sCells := Mul(s.Len(), c)
	tCells := Mul(tlen, c)
	for _, hs := range heapSorts {
		if !sorts[hs] {
			continue
		}
		h := st.heap[hs]
		inner := fc.freshConst("appin_"+sortTag(hs), SArr(SInt, hs))
		// axioms are indexed by the absolute cell position so that (select inner k) is the trigger
		pat := Select(inner, k).S
		a1 := Implies(And(Le(off, k), Lt(k, Add(off, sCells))),
			Eq(Select(inner, k), Select(Select(h, s.Obj()), Add(s.Off(), Sub(k, off)))))
		fc.assume(Term{fmt.Sprintf("(forall ((k!q Int)) (! %s :pattern (%s)))", a1.S, pat), SBool})
		base2 := Add(off, sCells)
		if tIsStr {
			a2 := Implies(And(Le(base2, k), Lt(k, Add(base2, tlen))),
				Eq(Select(inner, k), mk(SBV(8), "s_at", t.T, Sub(k, base2))))
			if hs == SBV(8) {
				fc.assume(Term{fmt.Sprintf("(forall ((k!q Int)) (! %s :pattern (%s)))", a2.S, pat), SBool})
			}
		} else {
			a2 := Implies(And(Le(base2, k), Lt(k, Add(base2, tCells))),
				Eq(Select(inner, k), Select(Select(h, t.Obj()), Add(t.Off(), Sub(k, base2)))))
			fc.assume(Term{fmt.Sprintf("(forall ((k!q Int)) (! %s :pattern (%s)))", a2.S, pat), SBool})
		}
		a3 := Implies(And(Not(grow), Or(Lt(k, Add(s.Off(), sCells)), Ge(k, Add(s.Off(), Mul(newLen, c))))),
			Eq(Select(inner, k), Select(Select(h, s.Obj()), k)))
		fc.assume(Term{fmt.Sprintf("(forall ((k!q Int)) (! %s :pattern (%s)))", a3.S, pat), SBool})
		st.heap[hs] = Store(h, obj, inner)
	}
	fc.commitHeaps()
	return SliceV(obj, off, newLen, cp)
}

func (fc *FnCtx) copyBuiltin(cc *ssa.CallCommon, args []Value, pos token.Pos) Value {
	st := fc.cur
	d, s := args[0], args[1]
	sliceT, ok := cc.Args[0].Type().Underlying().(*types.Slice)
	if !ok || d.K != KSlice {
		fc.havocAll("copy")
		return Leaf(fc.freshConst("copyn", intSort(64, fc.mode)))
	}
	elem := sliceT.Elem()
	c := IntLit(cellsOf(elem))
	var slen Term
	isStr := false
	if s.K == KSlice {
		slen = s.Len()
	} else if s.K == KLeaf && s.T.Sort == SStr {
		slen = strLen(s.T)
		isStr = true
	} else {
		fc.havocAll("copy")
		return Leaf(fc.freshConst("copyn", intSort(64, fc.mode)))
	}
	n := fc.define(fc.freshName("copyn"), Ite(Lt(d.Len(), slen), d.Len(), slen))
	sorts := map[Sort]bool{}
	fc.sortsOfType(elem, sorts)
	k := Term{"k!q", SInt}
	nCells := Mul(n, c)
	for _, hs := range heapSorts {
		if !sorts[hs] {
			continue
		}
		h := st.heap[hs]
		inner := fc.freshConst("cpin_"+sortTag(hs), SArr(SInt, hs))
		var src Term
		rel := Sub(k, d.Off())
		if isStr {
			src = mk(SBV(8), "s_at", s.T, rel)
		} else {
			src = Select(Select(h, s.Obj()), Add(s.Off(), rel))
		}
		pat := Select(inner, k).S
		a1 := Implies(And(Le(d.Off(), k), Lt(k, Add(d.Off(), nCells))), Eq(Select(inner, k), src))
		a2 := Implies(Or(Lt(k, d.Off()), Ge(k, Add(d.Off(), nCells))), Eq(Select(inner, k), Select(Select(h, d.Obj()), k)))
		fc.assume(Term{fmt.Sprintf("(forall ((k!q Int)) (! %s :pattern (%s)))", a1.S, pat), SBool})
		fc.assume(Term{fmt.Sprintf("(forall ((k!q Int)) (! %s :pattern (%s)))", a2.S, pat), SBool})
		st.heap[hs] = Store(h, d.Obj(), inner)
	}
	fc.commitHeaps()
	return Leaf(fc.fromIndex(n, types.Typ[types.Int]))
}

// dynamicCall: call through a function value.
func (fc *FnCtx) dynamicCall(cc *ssa.CallCommon, args []Value, pos token.Pos) Value {
	fv := fc.val(cc.Value)
	sig := cc.Signature()
	// pure-function-parameter convention: fn params declared `pure` in the contract
	if fc.c != nil {
		if p, ok := cc.Value.(*ssa.Parameter); ok && fc.c.pureParam(p.Name()) && sig.Results().Len() == 1 && fv.K == KLeaf {
			if v, ok := fc.applyUF(fv.T, args, sig.Results().At(0).Type()); ok {
				return v
			}
		}
	}
	// a function-typed variable captured from the enclosing function, where it is declared pure
	if u, ok := cc.Value.(*ssa.UnOp); ok && u.Op == token.MUL && fc.eng.pureFuncValue(fc.fn, cc.Value) && sig.Results().Len() == 1 && fv.K == KLeaf {
		if v, ok := fc.applyUF(fv.T, args, sig.Results().At(0).Type()); ok {
			return v
		}
	}
	if fc.pureMode {
		// inside a spec function a function-typed parameter is an uninterpreted function
		if _, ok := cc.Value.(*ssa.Parameter); ok && sig.Results().Len() == 1 && fv.K == KLeaf {
			if v, ok := fc.applyUF(fv.T, args, sig.Results().At(0).Type()); ok {
				return v
			}
		}
	}
	fc.notes = append(fc.notes, "dynamic call of function value")
	fc.havocAll("dyncall")
	fc.havocAllGhosts()
	return fc.freshResult(sig.Results())
}

func (c *Contract) pureParam(name string) bool {
	for _, n := range c.Notes {
		if n == "pure-param "+name {
			return true
		}
	}
	return false
}

var applyFns = map[string][]Sort{}

func (e *Engine) needApply(name string, args []Term, res Sort) {
	if _, ok := applyFns[name]; ok {
		return
	}
	var ss []Sort
	for _, a := range args {
		ss = append(ss, a.Sort)
	}
	ss = append(ss, res)
	applyFns[name] = ss
}

// preservesEqs: the cells of the object designated by expr (a pointer: its
// pointee; a slice: its elements) are equal in states a and b.
func (fc *FnCtx) preservesEqs(env *Env, expr string, a, b *State) (Term, error) {
	// "refs x": only the integer/reference/string/bool cells (not byte contents)
	refsOnly := false
	if strings.HasPrefix(strings.TrimSpace(expr), "refs ") {
		refsOnly = true
		expr = strings.TrimPrefix(strings.TrimSpace(expr), "refs ")
	}
	sv, err := fc.specExpr(env, strings.TrimSpace(expr))
	if err != nil {
		return Term{}, err
	}
	var cs []Term
	switch {
	case sv.v.K == KPtr:
		pt, ok := sv.t.Underlying().(*types.Pointer)
		if !ok {
			return Term{}, fmt.Errorf("preserves: not a pointer")
		}
		n := cellsOf(pt.Elem())
		if n > 256 {
			return Term{}, fmt.Errorf("preserves: object too large")
		}
		sorts := map[Sort]bool{}
		fc.sortsOfType(pt.Elem(), sorts)
		for _, hs := range heapSorts {
			if !sorts[hs] || a.heap[hs].S == b.heap[hs].S {
				continue
			}
			if refsOnly && hs.IsBV() {
				continue
			}
			for k := int64(0); k < n; k++ {
				off := offPlus(sv.v.Off(), k)
				cs = append(cs, Eq(Select(Select(a.heap[hs], sv.v.Obj()), off), Select(Select(b.heap[hs], sv.v.Obj()), off)))
			}
		}
	case sv.v.K == KSlice:
		st, ok := sv.t.Underlying().(*types.Slice)
		if !ok {
			return Term{}, fmt.Errorf("preserves: not a slice")
		}
		c := cellsOf(st.Elem())
		sorts := map[Sort]bool{}
		fc.sortsOfType(st.Elem(), sorts)
		k := Term{"k!pz", SInt}
		for _, hs := range heapSorts {
			if !sorts[hs] || a.heap[hs].S == b.heap[hs].S {
				continue
			}
			body := Implies(And(Le(IntLit(0), k), Lt(k, Mul(sv.v.Len(), IntLit(c)))),
				Eq(Select(Select(a.heap[hs], sv.v.Obj()), Add(sv.v.Off(), k)), Select(Select(b.heap[hs], sv.v.Obj()), Add(sv.v.Off(), k))))
			cs = append(cs, Term{fmt.Sprintf("(forall ((k!pz Int)) %s)", body.S), SBool})
		}
	default:
		return Term{}, fmt.Errorf("preserves: %q is neither pointer nor slice", expr)
	}
	return And(cs...), nil
}

// heapPure: a syntactic frame analysis. A function is heap-pure if every store
// goes to an object it allocated itself (address derived from a local Alloc),
// it updates no map it did not create, and it only calls heap-pure repository
// functions, allocation-only builtins, or library models without write effects.
func (e *Engine) heapPure(fn *ssa.Function) bool {
	if e.pureMemo == nil {
		e.pureMemo = map[*ssa.Function]int{}
	}
	switch e.pureMemo[fn] {
	case 1:
		return true
	case 2, 3:
		return false // impure, or in progress (recursion): assume impure
	}
	e.pureMemo[fn] = 3
	ok := e.heapPureBody(fn)
	if ok {
		e.pureMemo[fn] = 1
	} else {
		e.pureMemo[fn] = 2
	}
	return ok
}

// pureFuncValue: v, used inside fn, is a function value that a contract declares pure: a
// parameter of fn noted `pure-param`, or such a parameter of the enclosing function read
// through a captured variable.
func (e *Engine) pureFuncValue(fn *ssa.Function, v ssa.Value) bool {
	switch x := v.(type) {
	case *ssa.Parameter:
		if c := e.contractFor(fn); c != nil && c.pureParam(x.Name()) {
			return true
		}
	case *ssa.UnOp:
		if fv, ok := x.X.(*ssa.FreeVar); ok && x.Op == token.MUL && fn.Parent() != nil {
			if c := e.contractFor(fn.Parent()); c != nil && c.pureParam(fv.Name()) {
				return true
			}
		}
	case *ssa.MakeClosure:
		if f, ok := x.Fn.(*ssa.Function); ok {
			return e.heapPure(f)
		}
	case *ssa.Function:
		return e.heapPure(x)
	}
	return false
}

func (e *Engine) heapPureBody(fn *ssa.Function) bool {
	if len(fn.Blocks) == 0 {
		return false
	}
	// closures: reading captured variables is fine; a store through a captured variable has a
	// FreeVar (not an Alloc) as base and is rejected below
	localMap := map[ssa.Value]bool{}
	for _, b := range fn.Blocks {
		for _, ins := range b.Instrs {
			switch x := ins.(type) {
			case *ssa.MakeMap:
				localMap[x] = true
			case *ssa.Store:
				base := addrBase(x.Addr)
				if _, ok := base.(*ssa.Alloc); !ok {
					return false
				}
			case *ssa.MapUpdate:
				if !localMap[x.Map] {
					return false
				}
			case *ssa.Go, *ssa.Defer, *ssa.Send, *ssa.Select, *ssa.Panic:
				if _, isPanic := ins.(*ssa.Panic); !isPanic {
					return false
				}
			case ssa.CallInstruction:
				cc := x.Common()
				if b, ok := cc.Value.(*ssa.Builtin); ok {
					switch b.Name() {
					case "len", "cap", "min", "max", "print", "println":
					default:
						return false // append/copy may write through their arguments
					}
					continue
				}
				if cc.IsInvoke() {
					return false
				}
				if e.pureFuncValue(fn, cc.Value) {
					continue
				}
				callee, ok := cc.Value.(*ssa.Function)
				if !ok {
					return false
				}
				if e.isSpecFn(callee) {
					continue
				}
				if c := e.contractFor(callee); c != nil {
					if c.Pure || (c.HasMod && len(c.Modifies) == 0) {
						continue
					}
					return false
				}
				if m, ok := libModels[fullName(callee)]; ok {
					if !m.eff.all && len(m.eff.sorts) == 0 {
						continue
					}
					return false
				}
				if e.isRepoFunc(callee) && e.heapPure(callee) {
					continue
				}
				return false
			}
		}
	}
	return true
}

// calleeDisplayName names a call target for assert-call matching.
func calleeDisplayName(cc *ssa.CallCommon) string {
	if b, ok := cc.Value.(*ssa.Builtin); ok {
		return b.Name()
	}
	if cc.IsInvoke() {
		return ifaceName(cc) + "." + cc.Method.Name()
	}
	switch v := cc.Value.(type) {
	case *ssa.Function:
		return v.String()
	case *ssa.MakeClosure:
		return v.Fn.(*ssa.Function).String()
	case *ssa.Parameter:
		return "dynamic." + v.Name()
	}
	return "dynamic"
}

// callAsserts checks the enclosing function's assert-call clauses at this site.
func (fc *FnCtx) callAsserts(ins ssa.Instruction, cc *ssa.CallCommon, args []Value, pos token.Pos) {
	if fc.c == nil || len(fc.c.CallAsserts) == 0 {
		return
	}
	name := calleeDisplayName(cc)
	for i := range fc.c.CallAsserts {
		ca := &fc.c.CallAsserts[i]
		if !strings.HasSuffix(name, ca.Callee) {
			continue
		}
		// ordinal = position among the matching call sites in source order
		ord := 0
		for _, b := range fc.fn.Blocks {
			for _, other := range b.Instrs {
				ci, ok := other.(ssa.CallInstruction)
				if !ok || other == ins {
					continue
				}
				if strings.HasSuffix(calleeDisplayName(ci.Common()), ca.Callee) && other.Pos() < ins.Pos() {
					ord++
				}
			}
		}
		if ca.Ord >= 0 && ca.Ord != ord {
			continue
		}
		env := fc.newEnv(fc.cur)
		env.atBlk = ins.Block()
		env.wholeBlk = true
		env.upTo = ins
		for k, a := range args {
			if k < len(cc.Args) {
				env.binds[fmt.Sprintf("arg%d", k)] = binding{a, cc.Args[k].Type()}
			}
		}
		// prevK: the K-th argument of the preceding call (in program order on this path prefix) of
		// a function of the same name -- lets a clause say "the same arguments as the call before"
		// without naming the caller's local variables
		if pa, ok := fc.prevArgs[name]; ok {
			for k, a := range pa.vals {
				env.binds[fmt.Sprintf("prev%d", k)] = binding{a, pa.typs[k]}
			}
		}
		ca.Hits++ // the call site exists, whether or not the clause can be evaluated
		t, err := fc.specBool(env, ca.Clause.Text)
		if err != nil {
			fc.unbound = append(fc.unbound, fmt.Sprintf("assert-call %s %q: %v", ca.Callee, ca.Clause.Text, err))
			continue
		}
		fc.oblige("assert-call", ca.Callee+": "+ca.Clause.Text, pos, t)
	}
	if fc.prevArgs == nil {
		fc.prevArgs = map[string]prevCall{}
	}
	pc := prevCall{}
	for k, a := range args {
		if k < len(cc.Args) {
			pc.vals = append(pc.vals, a)
			pc.typs = append(pc.typs, cc.Args[k].Type())
		}
	}
	fc.prevArgs[name] = pc
}

type prevCall struct {
	vals []Value
	typs []types.Type
}

// ifaceMethodUF models a pure interface method as an uninterpreted function.
func (fc *FnCtx) ifaceMethodUF(iface, method string, recv Value, args []Value, rt types.Type) (Value, bool) {
	rs := shapeOf(rt, fc.mode)
	if rs.K != KLeaf || recv.K != KIface {
		return Value{}, false
	}
	name := "im_" + iface + "_" + method
	ts := []Term{recv.E[0].T, recv.E[1].T}
	for _, a := range args {
		if a.K != KLeaf {
			return Value{}, false
		}
		name += "_" + sortTag(a.T.Sort)
		ts = append(ts, a.T)
	}
	name += "_" + sortTag(rs.Sort)
	fc.eng.needApply(name, ts, rs.Sort)
	return Leaf(mk(rs.Sort, name, ts...)), true
}

// applyUF: the result of calling a pure function value, as an uninterpreted
// function of the function value and the (flattened) arguments.
func (fc *FnCtx) applyUF(fn Term, args []Value, rt types.Type) (Value, bool) {
	rs := shapeOf(rt, fc.mode)
	if rs.K != KLeaf {
		return Value{}, false
	}
	name := "apply"
	ts := []Term{fn}
	for _, a := range args {
		if a.K == KOpaque {
			return Value{}, false
		}
		for _, l := range a.Leaves() {
			name += "_" + sortTag(l.Sort)
			ts = append(ts, l)
		}
	}
	name += "_" + sortTag(rs.Sort)
	fc.eng.needApply(name, ts, rs.Sort)
	return Leaf(mk(rs.Sort, name, ts...)), true
}

// containsIdent: name occurs in text as a whole identifier.
func containsIdent(text, name string) bool {
	isId := func(c byte) bool {
		return c == '_' || (c >= 'a' && c <= 'z') || (c >= 'A' && c <= 'Z') || (c >= '0' && c <= '9')
	}
	for i := 0; ; {
		j := strings.Index(text[i:], name)
		if j < 0 {
			return false
		}
		a, b := i+j, i+j+len(name)
		if (a == 0 || !isId(text[a-1])) && (b >= len(text) || !isId(text[b])) {
			return true
		}
		i = b
	}
}

// simpleScalarFn: a function with scalar parameters and one scalar result, a loop-free body without
// memory access, panics, goroutines, defers or closures, that calls only functions of the same kind.
func (e *Engine) simpleScalarFn(fn *ssa.Function, depth int) bool {
	if depth > 3 || len(fn.Blocks) == 0 || len(fn.FreeVars) > 0 || fn.Signature.Results().Len() != 1 || fn.Signature.Recv() != nil {
		return false
	}
	scalar := func(t types.Type) bool {
		switch u := t.Underlying().(type) {
		case *types.Basic:
			return u.Info()&(types.IsInteger|types.IsBoolean|types.IsString) != 0
		}
		return false
	}
	if !scalar(fn.Signature.Results().At(0).Type()) {
		return false
	}
	for _, p := range fn.Params {
		if !scalar(p.Type()) {
			return false
		}
	}
	for _, b := range fn.Blocks {
		for _, s := range b.Succs {
			if s.Index <= b.Index {
				return false // back edge: a loop
			}
		}
		for _, ins := range b.Instrs {
			switch x := ins.(type) {
			case *ssa.BinOp, *ssa.Phi, *ssa.If, *ssa.Jump, *ssa.Return, *ssa.DebugRef, *ssa.Convert, *ssa.ChangeType:
			case *ssa.UnOp:
				if x.Op == token.MUL || x.Op == token.ARROW {
					return false
				}
			case *ssa.Call:
				callee, ok := x.Common().Value.(*ssa.Function)
				if !ok || !e.isRepoFunc(callee) || !e.simpleScalarFn(callee, depth+1) {
					return false
				}
			default:
				return false
			}
		}
	}
	return true
}
