package main

import (
	"fmt"
	"go/token"
	"go/types"
	"os"
	"sort"
	"strings"

	"golang.org/x/tools/go/packages"
	"golang.org/x/tools/go/ssa"
	"golang.org/x/tools/go/ssa/ssautil"
)

const repoMod = "github.com/akalin/gopar"

type Engine struct {
	repoDir   string
	fset      *token.FileSet
	prog      *ssa.Program
	pkgs      []*packages.Package
	spkgs     map[string]*ssa.Package
	contracts *ContractSet
	funcs     map[string]*ssa.Function // contractKey -> function
	globalIDs map[*ssa.Global]int64
	typeIDs   map[string]int64
	funcIDNames map[string]int64
	strIDNames  map[string]int64
	strNames    []string
	strLits   map[string]int
	strList   []string
	funcIDs   map[*ssa.Function]int64
	srcCache  map[string][]byte
	specDefs  map[string]*SpecFnDef // name+mode
	specOrder []string
	loadErrs  []string
	tier      string
	ghosts    map[string]GhostDecl
	assumedUsed map[string]bool
	allFns      map[*ssa.Function]bool
	knownNames  map[string]bool // obligations recorded as known findings for curProp
	noRetry     bool
	curProp     string // property being checked (clause-level @Cxx filters)
	ghostMemo   map[*ssa.Function]map[string]bool
	loopSigs    map[string][]string // loop header texts recorded on the unchanged tree (baseline/loops.json)
	curLoopSigs map[string][]string // ... of the current source, for the functions verified in this run
	frozenIDs   map[string]bool // printed literal of frozen global object ids
	pureMemo    map[*ssa.Function]int
	allocTypes  map[string]types.Type
	allocArr    map[string]types.Type
}

func newEngine(repoDir string) (*Engine, error) {
	e := &Engine{
		repoDir:   repoDir,
		spkgs:     map[string]*ssa.Package{},
		funcs:     map[string]*ssa.Function{},
		globalIDs: map[*ssa.Global]int64{},
		typeIDs:   map[string]int64{},
		strLits:   map[string]int{},
		funcIDs:   map[*ssa.Function]int64{},
		srcCache:  map[string][]byte{},
		specDefs:  map[string]*SpecFnDef{},
		ghosts:    map[string]GhostDecl{},
		assumedUsed: map[string]bool{},
	}
	cfg := &packages.Config{
		Mode:       packages.LoadAllSyntax,
		Dir:        repoDir,
		BuildFlags: []string{"-tags=verif"},
		Env:        append(os.Environ(), "GOFLAGS=-mod=mod", "GOPROXY=off", "GOSUMDB=off", "GOTOOLCHAIN=local"),
	}
	pkgs, err := packages.Load(cfg, "./...")
	if err != nil {
		return nil, err
	}
	for _, p := range pkgs {
		for _, pe := range p.Errors {
			e.loadErrs = append(e.loadErrs, pe.Error())
		}
	}
	if len(e.loadErrs) > 0 {
		return e, fmt.Errorf("package load errors: %s", strings.Join(e.loadErrs, "; "))
	}
	e.pkgs = pkgs
	e.fset = pkgs[0].Fset
	prog, spkgs := ssautil.AllPackages(pkgs, ssa.GlobalDebug|ssa.BareInits)
	prog.Build()
	e.prog = prog
	_ = spkgs
	for _, sp := range prog.AllPackages() {
		if sp != nil {
			e.spkgs[sp.Pkg.Path()] = sp
		}
	}
	// contracts
	e.contracts = &ContractSet{Funcs: map[string]*Contract{}, Preds: map[string]*PredDecl{}, Frozen: map[string]bool{}, IfacePure: map[string]bool{}}
	for _, p := range pkgs {
		for i, f := range p.Syntax {
			name := p.CompiledGoFiles[i]
			if strings.Contains(name, "verif_contracts") {
				e.contracts.parseFile(e.fset, p.PkgPath, f)
			}
		}
	}
	for _, g := range e.contracts.Ghosts {
		e.ghosts[g.Name] = g
	}
	// index functions
	for path, sp := range e.spkgs {
		if !strings.HasPrefix(path, repoMod) {
			continue
		}
		for fn := range ssautil.AllFunctions(prog) {
			if fn.Pkg != sp {
				continue
			}
			e.funcs[contractKey(path, relName(fn))] = fn
		}
	}
	// global ids: stable order
	var gl []*ssa.Global
	for _, sp := range e.spkgs {
		for _, m := range sp.Members {
			if g, ok := m.(*ssa.Global); ok {
				gl = append(gl, g)
			}
		}
	}
	sort.Slice(gl, func(i, j int) bool { return gl[i].String() < gl[j].String() })
	for i, g := range gl {
		e.globalIDs[g] = -int64(i) - 10
	}
	for k, c := range e.contracts.Funcs {
		if _, ok := e.funcs[k]; ok {
			c.Bound = true
		}
	}
	e.collectAllocTypes()
	e.frozenIDs = map[string]bool{}
	for g, id := range e.globalIDs {
		if g.Pkg != nil && e.contracts.Frozen[contractKey(g.Pkg.Pkg.Path(), g.Name())] {
			e.frozenIDs[IntLit(id).S] = true
		}
	}
	return e, nil
}

// relName is the package-relative name used in contract files.
func relName(fn *ssa.Function) string {
	if fn.Pkg == nil {
		if fn.Parent() != nil {
			return relName(fn.Parent()) + "$anon"
		}
		return fn.String()
	}
	return fn.RelString(fn.Pkg.Pkg)
}

func (e *Engine) contractFor(fn *ssa.Function) *Contract {
	if fn.Pkg == nil {
		return nil
	}
	return e.contracts.Funcs[contractKey(fn.Pkg.Pkg.Path(), relName(fn))]
}

func (e *Engine) isRepoFunc(fn *ssa.Function) bool {
	p := fn.Pkg
	if p == nil && fn.Parent() != nil {
		return e.isRepoFunc(fn.Parent())
	}
	return p != nil && strings.HasPrefix(p.Pkg.Path(), repoMod)
}

func (e *Engine) typeID(t types.Type) int64 {
	k := types.TypeString(t, nil)
	if id, ok := e.typeIDs[k]; ok {
		return id
	}
	id := e.stableID(k, e.typeIDs)
	e.typeIDs[k] = id
	return id
}

func (e *Engine) strLit(s string) Term {
	id, ok := e.strLits[s]
	if !ok {
		id = len(e.strList)
		e.strLits[s] = id
		e.strList = append(e.strList, s)
		if e.strIDNames == nil {
			e.strIDNames = map[string]int64{}
		}
		h := e.stableID("str "+s, e.strIDNames)
		e.strIDNames["str "+s] = h
		e.strNames = append(e.strNames, fmt.Sprintf("strlit%d", h))
	}
	return Term{e.strNames[id], SStr}
}

func (e *Engine) funcID(fn *ssa.Function) int64 {
	if id, ok := e.funcIDs[fn]; ok {
		return id
	}
	if e.funcIDNames == nil {
		e.funcIDNames = map[string]int64{}
	}
	id := e.stableID("func "+fn.String(), e.funcIDNames)
	e.funcIDNames["func "+fn.String()] = id
	e.funcIDs[fn] = id
	return id
}

func (e *Engine) source(file string) []byte {
	if b, ok := e.srcCache[file]; ok {
		return b
	}
	b, _ := os.ReadFile(file)
	e.srcCache[file] = b
	return b
}

// srcText returns the source text between two positions, whitespace-normalised.
func (e *Engine) srcText(from, to token.Pos) string {
	if !from.IsValid() || !to.IsValid() {
		return ""
	}
	pf := e.fset.Position(from)
	pt := e.fset.Position(to)
	src := e.source(pf.Filename)
	if pf.Offset < 0 || pt.Offset > len(src) || pf.Offset > pt.Offset {
		return ""
	}
	return strings.Join(strings.Fields(string(src[pf.Offset:pt.Offset])), " ")
}
