package main

import (
	"bytes"
	"fmt"
	"go/ast"
	"go/printer"
	"go/types"
	"sort"
	"strings"

	"golang.org/x/tools/go/ssa"
)

// orderCheck: Go leaves the iteration order of `range` over a map unspecified, so a map-range
// loop is a source of run-to-run variation unless what it computes does not depend on the order
// in which the entries are visited. For every function reachable from the given roots one
// obligation per map-range loop says that the loop is order-insensitive, decided by one of three
// sufficient, purely structural arguments over the SSA of the real function:
//
//	keyed-insert      the loop carries no value from one iteration to the next (no phi at its
//	                  head), calls nothing, returns from nowhere inside, and every effect is a
//	                  map update whose key is the range key itself (distinct entries touch
//	                  distinct cells) or a store to a variable allocated inside the body;
//	collect-then-sort the only carried value is a slice that is appended to, nothing else
//	                  happens, and after the loop the slice is handed to sort.Ints / sort.Strings
//	                  / sort.Float64s (total orders on values) before any other use;
//	empty-by-contract the function's contract requires `@strict len(<ranged expression>) == 0`
//	                  (a precondition obligation at every call site, also in effects-only
//	                  callers) and the function never assigns the ranged expression: the loop
//	                  runs zero times.
//
// A loop that fits none of them is reported (refuted): its effect may depend on the order.
// Also: no clock, random-number, environment or process-identity primitive is reachable.
func (cr *checkRun) orderCheck(roots []string) {
	nondet := []string{"time.Now", "time.Since", "math/rand.", "crypto/rand.", "os.Getenv", "os.Environ", "os.Hostname", "os.Getpid", "os.Getppid", "os.Getuid", "os.LookupEnv", "os.TempDir", "os.UserHomeDir", "runtime.NumGoroutine"}
	seen := map[*ssa.Function]bool{}
	for _, r := range roots {
		fn, ok := cr.e.funcs[r]
		short := r[strings.LastIndex(r, "/")+1:]
		o := &Oblig{Fn: "order", Name: "order:" + short + "#no-clock-random-environment-input", Kind: "order", preSolved: true, goal: TFalse, Solver: "call-graph reachability (static + class-hierarchy)"}
		cr.obs = append(cr.obs, o)
		if !ok {
			o.Status, o.Detail = "unknown", "root function not found"
			continue
		}
		fns, ext, _ := cr.e.reachable(fn)
		var bad []string
		for x := range ext {
			for _, f := range nondet {
				if strings.HasPrefix(x, f) {
					bad = append(bad, "reaches "+x)
				}
			}
		}
		sort.Strings(bad)
		o.Cases = int64(len(fns))
		if len(bad) == 0 {
			o.Status, o.Detail = "proved", fmt.Sprintf("%d functions reachable, %d external callees", len(fns), len(ext))
		} else {
			o.Status, o.Model, o.Replayed = "refuted", strings.Join(bad, "\n"), true
		}
		var list []*ssa.Function
		for f := range fns {
			if !seen[f] {
				seen[f] = true
				list = append(list, f)
			}
		}
		sort.Slice(list, func(i, j int) bool { return list[i].String() < list[j].String() })
		for _, f := range list {
			cr.orderLoops(f)
		}
	}
}

func (cr *checkRun) orderLoops(fn *ssa.Function) {
	if pos := cr.e.prog.Fset.Position(fn.Pos()); strings.HasSuffix(pos.Filename, "_test.go") {
		return
	}
	count := map[string]int{}
	for _, b := range fn.Blocks {
		for _, ins := range b.Instrs {
			rg, ok := ins.(*ssa.Range)
			if !ok {
				continue
			}
			if _, isMap := rg.X.Type().Underlying().(*types.Map); !isMap {
				continue
			}
			src := cr.rangeSource(fn, rg)
			count[src]++
			name := fmt.Sprintf("order:%s.%s#range(%s)", fn.Pkg.Pkg.Name(), fnShortName(fn), src)
			if count[src] > 1 {
				name += fmt.Sprintf("#%d", count[src])
			}
			o := &Oblig{Fn: fn.String(), Name: name, Kind: "order", preSolved: true, goal: TFalse, Solver: "SSA structure of the loop"}
			cr.obs = append(cr.obs, o)
			how, why := cr.orderInsensitive(fn, rg, src)
			if how != "" {
				o.Status, o.Detail = "proved", how
			} else {
				o.Status, o.Replayed = "refuted", true
				o.Model = fmt.Sprintf("%s: range over map %s at %s: the loop fits no order-insensitive form (%s); Go randomises map iteration order, so what the loop produces may differ from run to run", fn.String(), src, cr.e.prog.Fset.Position(rg.Pos()), why)
			}
		}
	}
}

func fnShortName(fn *ssa.Function) string {
	s := fn.String()
	if i := strings.LastIndex(s, "/"); i >= 0 {
		s = s[i+1:]
	}
	if i := strings.Index(s, "."); i >= 0 && !strings.HasPrefix(s, "(") {
		s = s[i+1:]
	}
	return s
}

// rangeSource returns the source text of the ranged expression (stable under renaming of
// unrelated locals; it names the obligation).
func (cr *checkRun) rangeSource(fn *ssa.Function, rg *ssa.Range) string {
	var found string
	syn := fn.Syntax()
	if syn != nil {
		ast.Inspect(syn, func(n ast.Node) bool {
			if rs, ok := n.(*ast.RangeStmt); ok && found == "" {
				if rs.For == rg.Pos() || rs.X.Pos() == rg.Pos() || (rs.Pos() <= rg.Pos() && rg.Pos() <= rs.X.End()) {
					if tv, ok := cr.typeOfExpr(fn, rs.X); ok {
						if _, isMap := tv.Underlying().(*types.Map); isMap {
							var buf bytes.Buffer
							printer.Fprint(&buf, cr.e.prog.Fset, rs.X)
							found = buf.String()
						}
					}
				}
			}
			return true
		})
	}
	if found == "" {
		found = rg.X.Name()
	}
	return found
}

func (cr *checkRun) typeOfExpr(fn *ssa.Function, x ast.Expr) (types.Type, bool) {
	for _, p := range cr.e.pkgs {
		if p.Types == fn.Pkg.Pkg && p.TypesInfo != nil {
			if tv, ok := p.TypesInfo.Types[x]; ok {
				return tv.Type, true
			}
		}
	}
	return nil, false
}

func (cr *checkRun) orderInsensitive(fn *ssa.Function, rg *ssa.Range, src string) (how string, why string) {
	// empty-by-contract
	if c := cr.e.contractFor(fn); c != nil {
		want := strings.ReplaceAll("len("+src+")==0", " ", "")
		for _, rq := range c.Requires {
			for _, conj := range strings.Split(strings.ReplaceAll(rq.Text, " ", ""), "&&") {
				if conj == want && rq.Strict && !assignsExpr(fn, src) {
					return "empty-by-contract: requires " + rq.Text + " (a precondition obligation at every call site); the function never assigns " + src, ""
				}
			}
		}
	}
	var next *ssa.Next
	for _, r := range *rg.Referrers() {
		if n, ok := r.(*ssa.Next); ok {
			if next != nil {
				return "", "more than one next on the iterator"
			}
			next = n
		}
	}
	if next == nil {
		return "", "iterator not advanced in a recognisable loop"
	}
	head := next.Block()
	// natural loop of head: blocks dominated by head that reach head
	loop := map[*ssa.BasicBlock]bool{head: true}
	var work []*ssa.BasicBlock
	for _, p := range head.Preds {
		if head.Dominates(p) && !loop[p] {
			loop[p] = true
			work = append(work, p)
		}
	}
	for len(work) > 0 {
		b := work[len(work)-1]
		work = work[:len(work)-1]
		for _, p := range b.Preds {
			if !loop[p] && head.Dominates(p) {
				loop[p] = true
				work = append(work, p)
			}
		}
	}
	var key ssa.Value
	for _, r := range *next.Referrers() {
		if ex, ok := r.(*ssa.Extract); ok && ex.Index == 1 {
			key = ex
		}
	}
	var phis []*ssa.Phi
	for _, ins := range head.Instrs {
		if p, ok := ins.(*ssa.Phi); ok {
			phis = append(phis, p)
		}
	}
	local := func(a ssa.Value) bool {
		for {
			switch x := a.(type) {
			case *ssa.Alloc:
				return loop[x.Block()] && x.Block() != nil
			case *ssa.FieldAddr:
				a = x.X
			case *ssa.IndexAddr:
				a = x.X
			case *ssa.Slice:
				a = x.X
			default:
				return false
			}
		}
	}
	// iterVar: the store assigns the range key or value to the (pre-Go-1.22: single) iteration
	// variable, which does not escape, first thing in the body, and the variable is never read
	// after the loop: each iteration overwrites it before reading it.
	iterVar := func(st *ssa.Store) bool {
		al, ok := st.Addr.(*ssa.Alloc)
		if !ok || al.Heap {
			return false
		}
		if ex, ok := st.Val.(*ssa.Extract); !ok || ex.Tuple != ssa.Value(next) {
			return false
		}
		sb := st.Block()
		if !loop[sb] || sb == head || len(sb.Preds) != 1 || sb.Preds[0] != head {
			return false
		}
		var usesAlloc func(v ssa.Value, depth int) bool
		usesAlloc = func(v ssa.Value, depth int) bool {
			if v == ssa.Value(al) {
				return true
			}
			if depth > 6 {
				return false
			}
			switch x := v.(type) {
			case *ssa.FieldAddr:
				return usesAlloc(x.X, depth+1)
			case *ssa.IndexAddr:
				return usesAlloc(x.X, depth+1)
			}
			return false
		}
		// no read of the variable before the store within the body entry block, none in head, none outside the loop
		for _, ins := range sb.Instrs {
			if ins == ssa.Instruction(st) {
				break
			}
			if u, ok := ins.(*ssa.UnOp); ok && usesAlloc(u.X, 0) {
				return false
			}
		}
		var escapes func(v ssa.Value) bool
		escapes = func(v ssa.Value) bool {
			for _, r := range *v.Referrers() {
				switch x := r.(type) {
				case *ssa.DebugRef:
				case *ssa.Store:
					if x.Val == v {
						return true
					}
					if !loop[x.Block()] {
						return true
					}
				case *ssa.UnOp:
					if !loop[x.Block()] || x.Block() == head {
						return true
					}
				case *ssa.FieldAddr:
					if escapes(x) {
						return true
					}
				case *ssa.IndexAddr:
					if escapes(x) {
						return true
					}
				default:
					return true
				}
			}
			return false
		}
		return !escapes(al)
	}
	var carried *ssa.Phi
	if len(phis) == 1 {
		if _, isSlice := phis[0].Type().Underlying().(*types.Slice); isSlice {
			carried = phis[0]
		}
	}
	if len(phis) > 1 || (len(phis) == 1 && carried == nil) {
		return "", "a value other than one collected slice is carried from one iteration to the next"
	}
	sawAppend := false
	for b := range loop {
		for _, ins := range b.Instrs {
			switch x := ins.(type) {
			case *ssa.Next, *ssa.Extract, *ssa.If, *ssa.Jump, *ssa.FieldAddr, *ssa.Field, *ssa.IndexAddr, *ssa.Index, *ssa.Lookup, *ssa.BinOp, *ssa.Convert, *ssa.ChangeType, *ssa.MakeInterface, *ssa.Alloc, *ssa.DebugRef, *ssa.Phi, *ssa.Slice, *ssa.MakeSlice, *ssa.MakeMap, *ssa.ChangeInterface, *ssa.TypeAssert:
			case *ssa.UnOp:
				if x.Op.String() == "<-" {
					return "", "channel receive in the body"
				}
			case *ssa.Store:
				if !local(x.Addr) && !iterVar(x) {
					return "", "store to memory that outlives one iteration at " + cr.e.prog.Fset.Position(x.Pos()).String()
				}
			case *ssa.MapUpdate:
				k := x.Key
				if cv, ok := k.(*ssa.Convert); ok {
					k = cv.X
				}
				if key == nil || k != key {
					return "", "map update under a key other than the range key at " + cr.e.prog.Fset.Position(x.Pos()).String()
				}
			case *ssa.Call:
				if bi, ok := x.Call.Value.(*ssa.Builtin); ok {
					switch bi.Name() {
					case "len", "cap":
						continue
					case "append":
						if carried != nil && x.Call.Args[0] == ssa.Value(carried) && !sawAppend {
							sawAppend = true
							continue
						}
					}
				}
				return "", "call in the body at " + cr.e.prog.Fset.Position(x.Pos()).String()
			default:
				return "", fmt.Sprintf("%T in the body at %s", ins, cr.e.prog.Fset.Position(ins.Pos()))
			}
		}
	}
	if carried == nil {
		return "keyed-insert: nothing is carried between iterations; the only effects are map updates under the range key and stores to variables of one iteration", ""
	}
	// collect-then-sort
	if !sawAppend {
		return "", "carried slice is not built by append"
	}
	for _, r := range *carried.Referrers() {
		if ri, ok := r.(ssa.Instruction); ok && loop[ri.Block()] {
			if _, isDbg := r.(*ssa.DebugRef); isDbg {
				continue
			}
			if c, ok := r.(*ssa.Call); ok {
				if bi, ok := c.Call.Value.(*ssa.Builtin); ok && bi.Name() == "append" {
					continue
				}
			}
			return "", "the collected slice is read inside the loop"
		}
	}
	var sortCall *ssa.Call
	var outside []ssa.Instruction
	for _, r := range *carried.Referrers() {
		if loop[r.Block()] {
			continue
		}
		outside = append(outside, r)
		if c, ok := r.(*ssa.Call); ok {
			if f, ok := c.Call.Value.(*ssa.Function); ok {
				switch f.String() {
				case "sort.Ints", "sort.Strings", "sort.Float64s":
					if sortCall == nil || instrBefore(c, sortCall) {
						sortCall = c
					}
				}
			}
		}
	}
	if sortCall == nil {
		return "", "the collected slice is not sorted by sort.Ints/Strings/Float64s after the loop"
	}
	for _, u := range outside {
		if u == ssa.Instruction(sortCall) {
			continue
		}
		if _, isDbg := u.(*ssa.DebugRef); isDbg {
			continue
		}
		if !instrBefore(sortCall, u) {
			return "", "the collected slice is used before it is sorted at " + cr.e.prog.Fset.Position(u.Pos()).String()
		}
	}
	return "collect-then-sort: the loop only appends to one slice, which is sorted by " + sortCall.Call.Value.String() + " (a total order on values) before any other use", ""
}

// instrBefore: a is executed before b on every path reaching b (same block and earlier, or a's
// block strictly dominates b's).
func instrBefore(a, b ssa.Instruction) bool {
	if a.Block() == b.Block() {
		for _, ins := range a.Block().Instrs {
			if ins == a {
				return true
			}
			if ins == b {
				return false
			}
		}
	}
	return a.Block().Dominates(b.Block())
}

// assignsExpr: does the function's source assign to the expression (or to a prefix of it)?
func assignsExpr(fn *ssa.Function, src string) bool {
	syn := fn.Syntax()
	if syn == nil {
		return true
	}
	assigned := false
	check := func(x ast.Expr) {
		var buf bytes.Buffer
		printer.Fprint(&buf, fn.Prog.Fset, x)
		s := buf.String()
		if s == src || strings.HasPrefix(src, s+".") || strings.HasPrefix(s, src+"[") {
			assigned = true
		}
	}
	ast.Inspect(syn, func(n ast.Node) bool {
		switch st := n.(type) {
		case *ast.AssignStmt:
			for _, l := range st.Lhs {
				check(l)
			}
		case *ast.IncDecStmt:
			check(st.X)
		case *ast.UnaryExpr:
			if st.Op.String() == "&" {
				check(st.X)
			}
		}
		return true
	})
	return assigned
}
