package main

import (
	"fmt"
	"go/parser"
	"go/types"
	"strings"
)

func (e *Engine) findLemma(pkg, name string) *Lemma {
	for _, l := range e.contracts.Lemmas {
		if l.Name == name && (l.Pkg == pkg || pkg == "") {
			return l
		}
	}
	for _, l := range e.contracts.Lemmas {
		if l.Name == name {
			return l
		}
	}
	return nil
}

// lemmaCtx makes a function-less context for evaluating lemma statements.
func (e *Engine) lemmaCtx(l *Lemma) *FnCtx {
	fc := &FnCtx{
		eng: e, vals: nil, names: map[string]int{}, params: map[string]Value{}, paramT: map[string]types.Type{},
		anc: map[int]map[int]bool{}, reach: map[int]Term{},
		usedAssumed: map[string]bool{},
	}
	fc.mode = l.Mode
	fc.name = pkgShort(l.Pkg) + ".lemma:" + l.Name
	fc.pkgOverride = e.pkgByPath(l.Pkg)
	fc.curBlk = -1
	st := &State{heap: map[Sort]Term{}, ghost: map[string]Term{}}
	for _, hs := range heapSorts {
		st.heap[hs] = fc.declare("H0_"+sortTag(hs), heapSort(hs))
	}
	st.next = fc.declare("next0", SInt)
	st.mdom = fc.declare("mdom0", SArr(SInt, SArr(SInt, SBool)))
	st.mlen = fc.declare("mlen0", SArr(SInt, SInt))
	fc.entry = st
	fc.cur = st
	return fc
}

func pkgShort(path string) string {
	if i := strings.LastIndex(path, "/"); i >= 0 {
		return path[i+1:]
	}
	return path
}

func (fc *FnCtx) lemmaVarType(name string) (types.Type, error) {
	ex, err := parser.ParseExpr(name)
	if err != nil {
		return nil, err
	}
	env := fc.newEnv(fc.cur)
	if name == "mathint" {
		return specIntType, nil
	}
	t, ok := env.lookupType(ex)
	if !ok {
		return nil, fmt.Errorf("unknown type %s", name)
	}
	return t, nil
}

// lemmaInstance evaluates requires => ensures of lemma l with variables bound to vals.
func (fc *FnCtx) lemmaInstance(l *Lemma, binds map[string]binding) (req Term, ens Term, err error) {
	env := fc.newEnv(fc.cur)
	env.callee = true
	env.pkg = fc.eng.pkgByPath(l.Pkg)
	for k, v := range binds {
		env.binds[k] = v
	}
	var rs, es []Term
	for _, r := range l.Requires {
		t, err := fc.specBool(env, r.Text)
		if err != nil {
			return Term{}, Term{}, err
		}
		rs = append(rs, t)
	}
	for _, en := range l.Ensures {
		t, err := fc.specBool(env, en.Text)
		if err != nil {
			return Term{}, Term{}, err
		}
		es = append(es, t)
	}
	return And(rs...), And(es...), nil
}

// lemmaAxiom is the universally quantified statement of a lemma (for `uses`).
func (fc *FnCtx) lemmaAxiom(l *Lemma) (Term, error) {
	binds := map[string]binding{}
	var qs []string
	for _, v := range l.Vars {
		t, err := fc.lemmaVarType(v.Type)
		if err != nil {
			return Term{}, err
		}
		sh := shapeOf(t, fc.mode)
		if t == specIntType {
			sh = leafShape(SInt, t)
		}
		if sh.K != KLeaf {
			return Term{}, fmt.Errorf("lemma variable %s is not scalar", v.Name)
		}
		nm := fmt.Sprintf("%s!L%s", v.Name, l.Name)
		binds[v.Name] = binding{Leaf(Term{nm, sh.Sort}), t}
		qs = append(qs, fmt.Sprintf("(%s %s)", nm, sh.Sort))
	}
	req, ens, err := fc.lemmaInstance(l, binds)
	if err != nil {
		return Term{}, err
	}
	// Int-represented variables range over their Go type
	var rng []Term
	for _, v := range l.Vars {
		b := binds[v.Name]
		if b.t != specIntType {
			rng = append(rng, fc.typeFacts(b.t, b.v, fc.cur.next)...)
		}
	}
	body := Implies(And(append(rng, req)...), ens)
	if len(qs) == 0 {
		return body, nil
	}
	return Term{fmt.Sprintf("(forall (%s) %s)", strings.Join(qs, " "), body.S), SBool}, nil
}

// lemmaObligation builds the proof obligation of a lemma.
func (e *Engine) lemmaObligation(l *Lemma) (*Oblig, error) {
	fc := e.lemmaCtx(l)
	binds := map[string]binding{}
	for _, v := range l.Vars {
		t, err := fc.lemmaVarType(v.Type)
		if err != nil {
			return nil, err
		}
		sh := shapeOf(t, fc.mode)
		if t == specIntType {
			sh = leafShape(SInt, t)
		}
		if sh.K != KLeaf {
			return nil, fmt.Errorf("lemma variable %s is not scalar", v.Name)
		}
		c := fc.declare("lv_"+v.Name, sh.Sort)
		binds[v.Name] = binding{Leaf(c), t}
		if t != specIntType {
			for _, f := range fc.typeFacts(t, Leaf(c), fc.cur.next) {
				fc.assume(f)
			}
		}
	}
	fc.opaqueRec = l.Opaque
	fc.collectApps = l.Opaque
	req, ens, err := fc.lemmaInstance(l, binds)
	if err != nil {
		return nil, err
	}
	fc.assume(req)
	if l.Opaque {
		uenv := fc.newEnv(fc.cur)
		uenv.callee = true
		uenv.pkg = e.pkgByPath(l.Pkg)
		for k, v := range binds {
			uenv.binds[k] = v
		}
		for _, u := range l.Unfold {
			if _, err := fc.specExpr(uenv, u); err != nil {
				return nil, fmt.Errorf("unfold %q: %v", u, err)
			}
		}
		fc.collectApps = false
		seen := map[string]bool{}
		for _, a := range fc.apps {
			t := a.unfolding()
			if !seen[t.S] {
				seen[t.S] = true
				fc.assume(t)
			}
		}
	}
	env := fc.newEnv(fc.cur)
	env.callee = true
	env.pkg = e.pkgByPath(l.Pkg)
	for k, v := range binds {
		env.binds[k] = v
	}
	// induction hypotheses
	for _, subst := range l.Induct {
		nb := map[string]binding{}
		for k, v := range binds {
			nb[k] = v
		}
		var guards []Term
		for _, s := range subst {
			parts := strings.SplitN(s, ":=", 2)
			if len(parts) != 2 {
				return nil, fmt.Errorf("bad induct clause %q", s)
			}
			name := strings.TrimSpace(parts[0])
			old, ok := binds[name]
			if !ok {
				return nil, fmt.Errorf("induct: unknown variable %s", name)
			}
			sv, err := fc.specExpr(env, strings.TrimSpace(parts[1]))
			if err != nil {
				return nil, err
			}
			sv = env.coerce(sv, old.t)
			if sv.v.K != KLeaf || sv.v.T.Sort != old.v.T.Sort {
				return nil, fmt.Errorf("induct: sort mismatch for %s", name)
			}
			nb[name] = binding{sv.v, old.t}
			if len(guards) == 0 {
				// well-founded measure: the first substituted variable, as a natural number
				if old.v.T.Sort.IsBV() {
					guards = append(guards, bvcmp("bvult", sv.v.T, old.v.T))
				} else {
					guards = append(guards, And(Le(IntLit(0), sv.v.T), Lt(sv.v.T, old.v.T)))
				}
			}
		}
		r2, e2, err := fc.lemmaInstance(l, nb)
		if err != nil {
			return nil, err
		}
		fc.assume(Implies(And(guards...), Implies(r2, e2)))
	}
	// other lemmas
	for _, u := range l.Uses {
		t, err := fc.lemmaUse(env, l, u)
		if err != nil {
			return nil, err
		}
		fc.assume(t)
	}
	o := fc.oblige("lemma", l.Name, 0, ens)
	o.Pos = l.Pos
	return o, nil
}

// lemmaUse instantiates "name(args)" or the quantified axiom "name".
func (fc *FnCtx) lemmaUse(env *Env, cur *Lemma, u string) (Term, error) {
	u = strings.TrimSpace(u)
	name := u
	argText := ""
	if i := strings.Index(u, "("); i >= 0 {
		name = u[:i]
		argText = u[i+1 : strings.LastIndex(u, ")")]
	}
	var pkg string
	if cur != nil {
		pkg = cur.Pkg
	}
	if i := strings.Index(name, "."); i >= 0 {
		// pkg-qualified
		short := name[:i]
		name = name[i+1:]
		for p := range fc.eng.spkgs {
			if pkgShort(p) == short {
				pkg = p
			}
		}
	}
	ul := fc.eng.findLemma(pkg, name)
	if ul == nil {
		return Term{}, fmt.Errorf("unknown lemma %s", name)
	}
	if cur != nil && !fc.eng.lemmaBefore(ul, cur) {
		return Term{}, fmt.Errorf("lemma %s used before it is stated (circularity guard)", name)
	}
	if argText == "" && !strings.Contains(u, "(") {
		return fc.lemmaAxiom(ul)
	}
	args := splitTop(argText, ',')
	if len(args) != len(ul.Vars) {
		return Term{}, fmt.Errorf("lemma %s: %d arguments, want %d", name, len(args), len(ul.Vars))
	}
	nb := map[string]binding{}
	var qvars []string // `?x` arguments: the instance is universally quantified over them (integers)
	for i, a := range args {
		t, err := fc.lemmaVarType(ul.Vars[i].Type)
		if err != nil {
			return Term{}, err
		}
		if a = strings.TrimSpace(a); strings.HasPrefix(a, "?") {
			if t != specIntType {
				if bits, _, isInt := intInfo(t); !isInt || intSort(bits, fc.mode) != SInt {
					return Term{}, fmt.Errorf("lemma %s: quantified argument %s must be an integer", name, a)
				}
			}
			fc.nfresh++
			qv := fmt.Sprintf("%s!q%d", a[1:], 900000+fc.nfresh)
			qvars = append(qvars, qv)
			nb[ul.Vars[i].Name] = binding{Leaf(Term{qv, SInt}), t}
			continue
		}
		sv, err := fc.specExpr(env, a)
		if err != nil {
			return Term{}, err
		}
		sv = env.coerce(sv, t)
		if t == specIntType {
			it, ok := fc.toIntTerm(sv)
			if !ok {
				return Term{}, fmt.Errorf("lemma %s: argument %d is not an integer", name, i)
			}
			sv = sval{v: Leaf(it), t: t}
		}
		nb[ul.Vars[i].Name] = binding{sv.v, t}
	}
	r, e2, err := fc.lemmaInstance(ul, nb)
	if err != nil {
		return Term{}, err
	}
	inst := Implies(r, e2)
	for i := len(qvars) - 1; i >= 0; i-- {
		inst = Term{fmt.Sprintf("(forall ((%s Int)) %s)", qvars[i], inst.S), SBool}
	}
	return inst, nil
}

// lemmaBefore: a is stated before b (lemmas may only use earlier lemmas).
func (e *Engine) lemmaBefore(a, b *Lemma) bool {
	ia, ib := -1, -1
	for i, l := range e.contracts.Lemmas {
		if l == a {
			ia = i
		}
		if l == b {
			ib = i
		}
	}
	if a.Pkg != b.Pkg {
		return true // cross-package: package import order prevents cycles
	}
	return ia >= 0 && ia < ib
}
