package main

// Assembly front end (DESIGN §2.1): the amd64 kernels of gf2p16 are assembled
// with `go tool asm` from /repo's working tree, disassembled with `go tool
// objdump`, and the instruction stream that actually runs is executed
// symbolically over 64-bit registers, 128-bit XMM registers and a byte-addressed
// memory. Obligations are quantifier-free bit-vector/array queries.

import (
	"fmt"
	"os"
	"os/exec"
	"path/filepath"
	"regexp"
	"strconv"
	"strings"
)

type asmInstr struct {
	line string // source line "slice_amd64.s:16"
	addr uint64
	hex  string
	op   string
	args []string
}

var asmLineRe = regexp.MustCompile(`^\s+(\S+:\d+)\s+0x([0-9a-f]+)\s+([0-9a-f]+)\s+(\S+)\s*(.*?)\s*$`)

func (e *Engine) disassemble(sym string) ([]asmInstr, string, error) {
	tmp, err := os.MkdirTemp("", "gocv_asm")
	if err != nil {
		return nil, "", err
	}
	defer os.RemoveAll(tmp)
	obj := filepath.Join(tmp, "s.o")
	env := append(os.Environ(), "GOFLAGS=-mod=mod", "GOPROXY=off", "GOSUMDB=off", "GOTOOLCHAIN=local")
	goroot, _ := exec.Command("go", "env", "GOROOT").Output()
	inc := filepath.Join(strings.TrimSpace(string(goroot)), "pkg", "include")
	cmd := exec.Command("go", "tool", "asm", "-p", repoMod+"/gf2p16", "-I", inc, "-o", obj, filepath.Join(e.repoDir, "gf2p16", "slice_amd64.s"))
	cmd.Env = env
	if out, err := cmd.CombinedOutput(); err != nil {
		return nil, "", fmt.Errorf("go tool asm: %v: %s", err, out)
	}
	cmd = exec.Command("go", "tool", "objdump", "-s", "gf2p16."+sym+"$", obj)
	cmd.Env = env
	out, err := cmd.Output()
	if err != nil {
		return nil, "", fmt.Errorf("go tool objdump: %v", err)
	}
	var ins []asmInstr
	for _, ln := range strings.Split(string(out), "\n") {
		m := asmLineRe.FindStringSubmatch(ln)
		if m == nil {
			continue
		}
		addr, _ := strconv.ParseUint(m[2], 16, 64)
		var args []string
		if strings.TrimSpace(m[5]) != "" {
			for _, a := range strings.Split(m[5], ",") {
				args = append(args, strings.TrimSpace(a))
			}
		}
		ins = append(ins, asmInstr{m[1], addr, m[3], m[4], args})
	}
	if len(ins) == 0 {
		return nil, "", fmt.Errorf("no instructions found for %s", sym)
	}
	return ins, string(out), nil
}

// ---- symbolic machine ------------------------------------------------------

type asmState struct {
	reg map[string]string // 64-bit registers
	xmm map[string]string // 128-bit registers
	mem string            // (Array (_ BitVec 64) (_ BitVec 8))
	zf  string            // result of the last flag-setting op == 0
	lt  string            // signed less-than of the last CMPQ
	acc []string          // memory accesses: "(addr, size)" pairs as SMT terms lo, n
	err string
	defs []string
	n    int
}

func newAsmState() *asmState {
	return &asmState{reg: map[string]string{}, xmm: map[string]string{}}
}

func (s *asmState) def(sort, term string) string {
	s.n++
	name := fmt.Sprintf("a!%d", s.n)
	s.defs = append(s.defs, fmt.Sprintf("(define-fun %s () %s %s)", name, sort, term))
	return name
}

const bv64 = "(_ BitVec 64)"
const bv128 = "(_ BitVec 128)"

func hexBV(n uint64, w int) string { return fmt.Sprintf("(_ bv%d %d)", n, w) }

var memRe = regexp.MustCompile(`^(-?0x[0-9a-f]+|-?\d+)?\((\w+)\)(?:\((\w+)\*(\d)\))?$`)

// addrOf computes the effective address of a memory operand.
func (s *asmState) addrOf(op string) (string, bool) {
	m := memRe.FindStringSubmatch(op)
	if m == nil {
		return "", false
	}
	base, ok := s.reg[m[2]]
	if !ok {
		s.err = "unknown base register " + m[2]
		return "", false
	}
	a := base
	if m[1] != "" && m[1] != "0" {
		d, err := strconv.ParseInt(m[1], 0, 64)
		if err != nil {
			s.err = "bad displacement " + m[1]
			return "", false
		}
		a = fmt.Sprintf("(bvadd %s %s)", a, hexBV(uint64(d), 64))
	}
	if m[3] != "" {
		idx, ok := s.reg[m[3]]
		if !ok {
			s.err = "unknown index register " + m[3]
			return "", false
		}
		sc, _ := strconv.Atoi(m[4])
		a = fmt.Sprintf("(bvadd %s (bvmul %s %s))", a, idx, hexBV(uint64(sc), 64))
	}
	return s.def(bv64, a), true
}

func (s *asmState) load(addr string, n int) string {
	s.acc = append(s.acc, fmt.Sprintf("%s %d", addr, n))
	var parts []string
	for i := n - 1; i >= 0; i-- {
		parts = append(parts, fmt.Sprintf("(select %s (bvadd %s %s))", s.mem, addr, hexBV(uint64(i), 64)))
	}
	if n == 1 {
		return parts[0]
	}
	return "(concat " + strings.Join(parts, " ") + ")"
}

func (s *asmState) store(addr string, n int, val string) {
	s.acc = append(s.acc, fmt.Sprintf("%s %d", addr, n))
	m := s.mem
	for i := 0; i < n; i++ {
		m = fmt.Sprintf("(store %s (bvadd %s %s) ((_ extract %d %d) %s))", m, addr, hexBV(uint64(i), 64), 8*i+7, 8*i, val)
	}
	s.mem = s.def("(Array (_ BitVec 64) (_ BitVec 8))", m)
}

func immOf(op string) (uint64, bool) {
	if !strings.HasPrefix(op, "$") {
		return 0, false
	}
	v, err := strconv.ParseInt(op[1:], 0, 64)
	if err != nil {
		u, err2 := strconv.ParseUint(op[1:], 0, 64)
		if err2 != nil {
			return 0, false
		}
		return u, true
	}
	return uint64(v), true
}

func isXmm(r string) bool { return len(r) >= 2 && r[0] == 'X' && r[1] >= '0' && r[1] <= '9' }

// lanes16 applies f to each 16-bit lane of x.
func lanes(x string, w int, f func(lane string, i int) string) string {
	n := 128 / w
	var parts []string
	for i := n - 1; i >= 0; i-- {
		parts = append(parts, f(fmt.Sprintf("((_ extract %d %d) %s)", w*i+w-1, w*i, x), i))
	}
	return "(concat " + strings.Join(parts, " ") + ")"
}

func byteOf(x string, i int) string { return fmt.Sprintf("((_ extract %d %d) %s)", 8*i+7, 8*i, x) }

// step executes one instruction. Branches are returned to the caller.
func (s *asmState) step(in asmInstr) {
	a := in.args
	bad := func() { s.err = fmt.Sprintf("unsupported instruction %s %s (%s)", in.op, strings.Join(a, ", "), in.line) }
	switch in.op {
	case "MOVQ":
		if len(a) != 2 {
			bad()
			return
		}
		switch {
		case isXmm(a[1]):
			src, ok := s.reg[a[0]]
			if !ok {
				bad()
				return
			}
			s.xmm[a[1]] = s.def(bv128, fmt.Sprintf("(concat (_ bv0 64) %s)", src))
		default:
			if v, ok := immOf(a[0]); ok {
				s.reg[a[1]] = hexBV(v, 64)
			} else if addr, ok := s.addrOf(a[0]); ok {
				s.reg[a[1]] = s.def(bv64, s.load(addr, 8))
			} else if src, ok := s.reg[a[0]]; ok {
				s.reg[a[1]] = src
			} else {
				bad()
			}
		}
	case "MOVDQU", "MOVDQA":
		if len(a) != 2 {
			bad()
			return
		}
		switch {
		case isXmm(a[0]) && isXmm(a[1]):
			s.xmm[a[1]] = s.xmm[a[0]]
		case isXmm(a[1]):
			addr, ok := s.addrOf(a[0])
			if !ok {
				bad()
				return
			}
			s.xmm[a[1]] = s.def(bv128, s.load(addr, 16))
		case isXmm(a[0]):
			addr, ok := s.addrOf(a[1])
			if !ok {
				bad()
				return
			}
			s.store(addr, 16, s.xmm[a[0]])
		default:
			bad()
		}
	case "MOVZX":
		// 0f b7: 16-bit source, 0f b6: 8-bit source (objdump prints both as MOVZX)
		w := 0
		if strings.Contains(in.hex, "0fb7") {
			w = 16
		} else if strings.Contains(in.hex, "0fb6") {
			w = 8
		}
		if w == 0 || len(a) != 2 {
			bad()
			return
		}
		if addr, ok := s.addrOf(a[0]); ok {
			s.reg[a[1]] = s.def(bv64, fmt.Sprintf("((_ zero_extend %d) %s)", 64-w, s.load(addr, w/8)))
		} else if src, ok := s.reg[a[0]]; ok {
			s.reg[a[1]] = s.def(bv64, fmt.Sprintf("((_ zero_extend %d) ((_ extract %d 0) %s))", 64-w, w-1, src))
		} else {
			bad()
		}
	case "MOVW":
		src, ok := s.reg[a[0]]
		addr, ok2 := s.addrOf(a[1])
		if !ok || !ok2 {
			bad()
			return
		}
		s.store(addr, 2, fmt.Sprintf("((_ extract 15 0) %s)", src))
	case "SHRQ":
		k, ok := immOf(a[0])
		if !ok {
			bad()
			return
		}
		s.reg[a[1]] = s.def(bv64, fmt.Sprintf("(bvlshr %s %s)", s.reg[a[1]], hexBV(k, 64)))
	case "SHRW":
		k, ok := immOf(a[0])
		if !ok {
			bad()
			return
		}
		r := s.reg[a[1]]
		s.reg[a[1]] = s.def(bv64, fmt.Sprintf("(concat ((_ extract 63 16) %s) (bvlshr ((_ extract 15 0) %s) %s))", r, r, hexBV(k, 16)))
	case "SHRL":
		k, ok := immOf(a[0])
		if !ok {
			bad()
			return
		}
		r := s.reg[a[1]]
		s.reg[a[1]] = s.def(bv64, fmt.Sprintf("((_ zero_extend 32) (bvlshr ((_ extract 31 0) %s) %s))", r, hexBV(k, 32)))
	case "XORL":
		s.reg[a[1]] = s.def(bv64, fmt.Sprintf("((_ zero_extend 32) (bvxor ((_ extract 31 0) %s) ((_ extract 31 0) %s)))", s.reg[a[1]], s.reg[a[0]]))
	case "INCQ":
		s.reg[a[0]] = s.def(bv64, fmt.Sprintf("(bvadd %s (_ bv1 64))", s.reg[a[0]]))
		s.zf = fmt.Sprintf("(= %s (_ bv0 64))", s.reg[a[0]])
	case "ADDQ", "SUBQ":
		k, ok := immOf(a[0])
		if !ok {
			bad()
			return
		}
		op := "bvadd"
		if in.op == "SUBQ" {
			op = "bvsub"
		}
		s.reg[a[1]] = s.def(bv64, fmt.Sprintf("(%s %s %s)", op, s.reg[a[1]], hexBV(k, 64)))
		s.zf = fmt.Sprintf("(= %s (_ bv0 64))", s.reg[a[1]])
	case "CMPQ":
		// Go operand order: CMPQ x, y sets flags of x - y
		x, okx := s.reg[a[0]]
		y, oky := s.reg[a[1]]
		if v, ok := immOf(a[1]); ok {
			y, oky = hexBV(v, 64), true
		}
		if !okx || !oky {
			bad()
			return
		}
		s.zf = fmt.Sprintf("(= %s %s)", x, y)
		s.lt = fmt.Sprintf("(bvslt %s %s)", x, y)
	case "PXOR":
		s.xmm[a[1]] = s.def(bv128, fmt.Sprintf("(bvxor %s %s)", s.xmm[a[1]], s.xmm[a[0]]))
	case "PAND":
		s.xmm[a[1]] = s.def(bv128, fmt.Sprintf("(bvand %s %s)", s.xmm[a[1]], s.xmm[a[0]]))
	case "PSRLW":
		k, ok := immOf(a[0])
		if !ok {
			bad()
			return
		}
		s.xmm[a[1]] = s.def(bv128, lanes(s.xmm[a[1]], 16, func(l string, i int) string {
			return fmt.Sprintf("(bvlshr %s %s)", l, hexBV(k, 16))
		}))
	case "PSHUFB":
		// dst[i] = mask[i] bit 7 ? 0 : dst[mask[i] & 15]
		mask, dst := s.xmm[a[0]], s.xmm[a[1]]
		var parts []string
		for i := 15; i >= 0; i-- {
			mb := byteOf(mask, i)
			sel := byteOf(dst, 15)
			for j := 14; j >= 0; j-- {
				sel = fmt.Sprintf("(ite (= ((_ extract 3 0) %s) %s) %s %s)", mb, hexBV(uint64(j), 4), byteOf(dst, j), sel)
			}
			parts = append(parts, fmt.Sprintf("(ite (= ((_ extract 7 7) %s) #b1) #x00 %s)", mb, sel))
		}
		s.xmm[a[1]] = s.def(bv128, "(concat "+strings.Join(parts, " ")+")")
	case "PACKUSWB":
		// dst = satu8(words of dst) (low half) , satu8(words of src) (high half); words are signed
		src, dst := s.xmm[a[0]], s.xmm[a[1]]
		sat := func(w string) string {
			return fmt.Sprintf("(ite (bvslt %s #x0000) #x00 (ite (bvsgt %s #x00ff) #xff ((_ extract 7 0) %s)))", w, w, w)
		}
		var parts []string
		for i := 7; i >= 0; i-- {
			parts = append(parts, sat(fmt.Sprintf("((_ extract %d %d) %s)", 16*i+15, 16*i, src)))
		}
		for i := 7; i >= 0; i-- {
			parts = append(parts, sat(fmt.Sprintf("((_ extract %d %d) %s)", 16*i+15, 16*i, dst)))
		}
		s.xmm[a[1]] = s.def(bv128, "(concat "+strings.Join(parts, " ")+")")
	case "PUNPCKLBW", "PUNPCKHBW":
		src, dst := s.xmm[a[0]], s.xmm[a[1]]
		base := 0
		if in.op == "PUNPCKHBW" {
			base = 8
		}
		var parts []string
		for i := 7; i >= 0; i-- {
			parts = append(parts, byteOf(src, base+i), byteOf(dst, base+i))
		}
		s.xmm[a[1]] = s.def(bv128, "(concat "+strings.Join(parts, " ")+")")
	default:
		bad()
	}
}

// ---- obligations -----------------------------------------------------------

type asmKernel struct {
	sym    string
	ssse3  bool
	muladd bool
}

var asmKernels = []asmKernel{
	{"mulByteSliceLEUnsafe", false, false},
	{"mulAndAddByteSliceLEUnsafe", false, true},
	{"mulSliceSSSE3Unsafe", true, false},
	{"mulAndAddSliceSSSE3Unsafe", true, true},
}

// ABI0 argument slots of func(cEntry *T, in, out []byte): offset from SP at entry.
var asmArgs = map[string]string{
	"0x8(SP)": "tbl", "0x10(SP)": "inp", "0x18(SP)": "inlen", "0x20(SP)": "incap",
	"0x28(SP)": "outp", "0x30(SP)": "outlen", "0x38(SP)": "outcap",
}

func asmHeader(k asmKernel) string {
	var sb strings.Builder
	sb.WriteString("(set-logic ALL)\n")
	for _, v := range []string{"tbl", "inp", "inlen", "incap", "outp", "outlen", "outcap"} {
		fmt.Fprintf(&sb, "(declare-const %s (_ BitVec 64))\n", v)
	}
	sb.WriteString("(declare-const mem0 (Array (_ BitVec 64) (_ BitVec 8)))\n")
	lim := "#x0000400000000000" // 2^46: user-space addresses and lengths (A-mem)
	for _, v := range []string{"tbl", "inp", "inlen", "outp", "outlen"} {
		fmt.Fprintf(&sb, "(assert (bvult %s %s))\n", v, lim)
	}
	sb.WriteString("(assert (bvuge tbl #x0000000000001000))\n(assert (bvuge inp #x0000000000001000))\n(assert (bvuge outp #x0000000000001000))\n")
	// contract preconditions
	if k.ssse3 {
		sb.WriteString("(assert (bvuge inlen (_ bv32 64)))\n")
	} else {
		sb.WriteString("(assert (bvuge inlen (_ bv2 64)))\n(assert (= ((_ extract 0 0) inlen) #b0))\n")
	}
	sb.WriteString("(assert (bvuge outlen inlen))\n")
	// in and out identical or disjoint (mul), disjoint (muladd); the table is disjoint from out
	dis := "(or (bvule (bvadd inp inlen) outp) (bvule (bvadd outp outlen) inp))"
	if k.muladd {
		fmt.Fprintf(&sb, "(assert %s)\n", dis)
	} else {
		fmt.Fprintf(&sb, "(assert (or (= inp outp) %s))\n", dis)
	}
	tsz := 1024
	if k.ssse3 {
		tsz = 128
	}
	fmt.Fprintf(&sb, "(assert (or (bvule (bvadd tbl (_ bv%d 64)) outp) (bvule (bvadd outp outlen) tbl)))\n", tsz)
	return sb.String()
}

func (s *asmState) defsText() string { return strings.Join(s.defs, "\n") + "\n" }

// run executes instructions [from,to) (SP-relative argument loads are symbolic).
func (s *asmState) run(ins []asmInstr) {
	for _, in := range ins {
		if s.err != "" {
			return
		}
		if in.op == "MOVQ" && len(in.args) == 2 {
			if v, ok := asmArgs[in.args[0]]; ok {
				s.reg[in.args[1]] = v
				continue
			}
		}
		s.step(in)
	}
}

func (cr *checkRun) asmObligation(name, kind, query, detail string) *Oblig {
	o := &Oblig{Fn: "gf2p16.asm", Name: "gf2p16.asm:" + name, Kind: kind, RawQuery: query, Detail: detail, goal: TFalse}
	cr.obs = append(cr.obs, o)
	return o
}

// asmChecks generates the obligations of the four assembly kernels used by the dispatchers.
func (cr *checkRun) asmChecks() {
	var listing strings.Builder
	for _, k := range asmKernels {
		ins, text, err := cr.e.disassemble(k.sym)
		if err != nil {
			o := cr.asmObligation(k.sym+"#disassemble", "asm", "", err.Error())
			o.preSolved, o.Status = true, "unknown"
			continue
		}
		listing.WriteString(text)
		// loop structure: one backward conditional jump
		head, jmp := -1, -1
		for i, in := range ins {
			if (in.op == "JL" || in.op == "JNE" || in.op == "JLT") && len(in.args) == 1 {
				t, err := strconv.ParseUint(strings.TrimPrefix(in.args[0], "0x"), 16, 64)
				if err == nil && t < in.addr {
					for j, x := range ins {
						if x.addr == t {
							head, jmp = j, i
						}
					}
				}
			}
		}
		if head < 0 || jmp != len(ins)-2 || ins[len(ins)-1].op != "RET" {
			o := cr.asmObligation(k.sym+"#shape:single-loop-then-RET", "asm", "", "unexpected control-flow shape")
			o.preSolved, o.Status = true, "unknown"
			continue
		}
		if k.ssse3 {
			cr.asmSSSE3(k, ins[:head], ins[head:jmp], ins[jmp])
		} else {
			cr.asmScalar(k, ins[:head], ins[head:jmp], ins[jmp])
		}
	}
	cr.extraCov["asm_instructions_verified"] = strings.Count(listing.String(), "\n")
	h := hashStr(listing.String())
	cr.extraCov["asm_disassembly_fnv32"] = fmt.Sprintf("%08x", h)
}

func (cr *checkRun) asmScalar(k asmKernel, pro, body []asmInstr, jmp asmInstr) {
	hdr := asmHeader(k)
	// S1: prologue establishes the loop invariant registers
	s := newAsmState()
	s.mem = "mem0"
	s.run(pro)
	if s.err != "" {
		o := cr.asmObligation(k.sym+"#subset:"+s.err, "asm", "", s.err)
		o.preSolved, o.Status = true, "unknown"
		return
	}
	get := func(st *asmState, r string) string {
		if v, ok := st.reg[r]; ok {
			return v
		}
		return "(_ bv0 64)"
	}
	goal := fmt.Sprintf("(and (= %s tbl) (= %s outp) (= %s inp) (= %s (bvlshr inlen (_ bv1 64))) (= %s (_ bv0 64)) (= %s mem0))",
		get(s, "AX"), get(s, "BX"), get(s, "SI"), get(s, "CX"), get(s, "R8"), s.mem)
	cr.asmObligation(k.sym+"#inv-init:AX==tbl,BX==out,SI==in,CX==len/2,R8==0", "asm", hdr+s.defsText()+"(assert (not "+goal+"))\n(check-sat)\n(get-model)\n", "prologue")
	// S2: one iteration from an arbitrary invariant state
	b := newAsmState()
	pre := "(declare-const i (_ BitVec 64))\n(declare-const mem (Array (_ BitVec 64) (_ BitVec 8)))\n" +
		"(define-fun n () (_ BitVec 64) (bvlshr inlen (_ bv1 64)))\n(assert (bvult i n))\n"
	b.reg["AX"], b.reg["BX"], b.reg["SI"], b.reg["CX"], b.reg["R8"] = "tbl", "outp", "inp", "n", "i"
	b.mem = "mem"
	b.run(body)
	if b.err != "" {
		o := cr.asmObligation(k.sym+"#subset:"+b.err, "asm", "", b.err)
		o.preSolved, o.Status = true, "unknown"
		return
	}
	base := hdr + pre + b.defsText()
	// memory safety of every access
	var accs []string
	for _, a := range b.acc {
		f := strings.Fields(a)
		addr, sz := f[0], f[1]
		end := fmt.Sprintf("(bvadd %s (_ bv%s 64))", addr, sz)
		accs = append(accs, fmt.Sprintf("(or (and (bvuge %s inp) (bvule %s (bvadd inp inlen))) (and (bvuge %s tbl) (bvule %s (bvadd tbl (_ bv1024 64)))) (and (bvuge %s outp) (bvule %s (bvadd outp inlen))))", addr, end, addr, end, addr, end))
	}
	cr.asmObligation(k.sym+"#bounds:every access inside in[0:len], out[0:len] or the 1024-byte table entry", "asm", base+"(assert (not (and "+strings.Join(accs, " ")+")))\n(check-sat)\n(get-model)\n", fmt.Sprintf("%d accesses", len(accs)))
	// functional effect of the iteration
	word := func(m, a string) string {
		return fmt.Sprintf("(concat (select %s (bvadd %s (_ bv1 64))) (select %s %s))", m, a, m, a)
	}
	ia := "(bvadd inp (bvmul i (_ bv2 64)))"
	oa := "(bvadd outp (bvmul i (_ bv2 64)))"
	lo := fmt.Sprintf("((_ zero_extend 56) (select mem %s))", ia)
	hi := fmt.Sprintf("((_ zero_extend 56) (select mem (bvadd %s (_ bv1 64))))", ia)
	s0 := word("mem", fmt.Sprintf("(bvadd tbl (bvmul %s (_ bv2 64)))", lo))
	s8 := word("mem", fmt.Sprintf("(bvadd (bvadd tbl (_ bv512 64)) (bvmul %s (_ bv2 64)))", hi))
	val := fmt.Sprintf("(bvxor %s %s)", s0, s8)
	if k.muladd {
		val = fmt.Sprintf("(bvxor %s %s)", word("mem", oa), val)
	}
	exp := fmt.Sprintf("(store (store mem %s ((_ extract 7 0) %s)) (bvadd %s (_ bv1 64)) ((_ extract 15 8) %s))", oa, val, oa, val)
	eff := fmt.Sprintf("(and (= %s %s) (= %s tbl) (= %s outp) (= %s inp) (= %s n) (= %s (bvadd i (_ bv1 64))))",
		b.mem, exp, get(b, "AX"), get(b, "BX"), get(b, "SI"), get(b, "CX"), get(b, "R8"))
	what := "out[i] = cEntry.s0[in[i]&0xff] ^ cEntry.s8[in[i]>>8]"
	if k.muladd {
		what = "out[i] ^= cEntry.s0[in[i]&0xff] ^ cEntry.s8[in[i]>>8]"
	}
	cr.asmObligation(k.sym+"#inv-step:"+what+"; nothing else written; registers preserved; R8 = i+1", "asm", base+"(assert (not "+eff+"))\n(check-sat)\n(get-model)\n", "loop body")
	// the branch continues exactly while i+1 < n (signed compare, n < 2^45)
	cont := fmt.Sprintf("(= %s (bvult (bvadd i (_ bv1 64)) n))", b.lt)
	if jmp.op != "JL" && jmp.op != "JLT" {
		cont = "false"
	}
	cr.asmObligation(k.sym+"#loop-exit:branch taken iff i+1 < len/2", "asm", base+"(assert (not "+cont+"))\n(check-sat)\n(get-model)\n", "loop condition")
}

func (cr *checkRun) asmSSSE3(k asmKernel, pro, body []asmInstr, jmp asmInstr) {
	hdr := asmHeader(k)
	s := newAsmState()
	s.mem = "mem0"
	for i := 0; i < 16; i++ {
		// register contents at entry are arbitrary
		hdr += fmt.Sprintf("(declare-const X%dentry (_ BitVec 128))\n", i)
		s.xmm[fmt.Sprintf("X%d", i)] = fmt.Sprintf("X%dentry", i)
	}
	s.run(pro)
	if s.err != "" {
		o := cr.asmObligation(k.sym+"#subset:"+s.err, "asm", "", s.err)
		o.preSolved, o.Status = true, "unknown"
		return
	}
	row := func(m string, t int) string {
		var parts []string
		for i := 15; i >= 0; i-- {
			parts = append(parts, fmt.Sprintf("(select %s (bvadd tbl (_ bv%d 64)))", m, 16*t+i))
		}
		return "(concat " + strings.Join(parts, " ") + ")"
	}
	var conj []string
	for t := 0; t < 8; t++ {
		conj = append(conj, fmt.Sprintf("(= %s %s)", s.xmm[fmt.Sprintf("X%d", 8+t)], row("mem0", t)))
	}
	conj = append(conj,
		fmt.Sprintf("(= %s #x00ff00ff00ff00ff00ff00ff00ff00ff)", s.xmm["X6"]),
		fmt.Sprintf("(= %s #x0f0f0f0f0f0f0f0f0f0f0f0f0f0f0f0f)", s.xmm["X7"]),
		fmt.Sprintf("(= %s (bvlshr inlen (_ bv5 64)))", s.reg["AX"]),
		fmt.Sprintf("(= %s inp)", s.reg["BX"]), fmt.Sprintf("(= %s outp)", s.reg["CX"]),
		fmt.Sprintf("(= %s mem0)", s.mem))
	for _, c := range conj {
		if strings.Contains(c, "(=  ") {
			o := cr.asmObligation(k.sym+"#subset:register not initialised by the prologue", "asm", "", c)
			o.preSolved, o.Status = true, "unknown"
			return
		}
	}
	cr.asmObligation(k.sym+"#inv-init:X8..X15==table rows,X6/X7==masks,AX==len/32,BX==in,CX==out", "asm", hdr+s.defsText()+"(assert (not (and "+strings.Join(conj, " ")+")))\n(check-sat)\n(get-model)\n", "prologue")
	// one block from an arbitrary invariant state
	b := newAsmState()
	var pre strings.Builder
	pre.WriteString("(declare-const r (_ BitVec 64))\n(declare-const bp (_ BitVec 64))\n(declare-const cp (_ BitVec 64))\n(declare-const mem (Array (_ BitVec 64) (_ BitVec 8)))\n")
	pre.WriteString("(define-fun nb () (_ BitVec 64) (bvlshr inlen (_ bv5 64)))\n(assert (bvuge r (_ bv1 64)))\n(assert (bvule r nb))\n")
	pre.WriteString("(assert (= bp (bvadd inp (bvmul (bvsub nb r) (_ bv32 64)))))\n(assert (= cp (bvadd outp (bvmul (bvsub nb r) (_ bv32 64)))))\n")
	for t := 0; t < 8; t++ {
		fmt.Fprintf(&pre, "(declare-const T%d (_ BitVec 128))\n", t)
		b.xmm[fmt.Sprintf("X%d", 8+t)] = fmt.Sprintf("T%d", t)
	}
	b.xmm["X6"] = "#x00ff00ff00ff00ff00ff00ff00ff00ff"
	b.xmm["X7"] = "#x0f0f0f0f0f0f0f0f0f0f0f0f0f0f0f0f"
	for i := 0; i < 6; i++ {
		fmt.Fprintf(&pre, "(declare-const X%dinit (_ BitVec 128))\n", i)
		b.xmm[fmt.Sprintf("X%d", i)] = fmt.Sprintf("X%dinit", i)
	}
	b.reg["AX"], b.reg["BX"], b.reg["CX"] = "r", "bp", "cp"
	b.mem = "mem"
	b.run(body)
	if b.err != "" {
		o := cr.asmObligation(k.sym+"#subset:"+b.err, "asm", "", b.err)
		o.preSolved, o.Status = true, "unknown"
		return
	}
	base := hdr + pre.String() + b.defsText()
	var accs []string
	for _, a := range b.acc {
		f := strings.Fields(a)
		addr, sz := f[0], f[1]
		end := fmt.Sprintf("(bvadd %s (_ bv%s 64))", addr, sz)
		accs = append(accs, fmt.Sprintf("(or (and (bvuge %s inp) (bvule %s (bvadd inp inlen))) (and (bvuge %s outp) (bvule %s (bvadd outp inlen))))", addr, end, addr, end))
	}
	cr.asmObligation(k.sym+"#bounds:every access of the block inside in[0:len] or out[0:len]", "asm", base+"(assert (not (and "+strings.Join(accs, " ")+")))\n(check-sat)\n(get-model)\n", fmt.Sprintf("%d accesses", len(accs)))
	// data path, one obligation per 16-bit lane
	tb := func(t int, nib string) string {
		// byte `nib` (4-bit term) of table row t
		sel := byteOf(fmt.Sprintf("T%d", t), 15)
		for j := 14; j >= 0; j-- {
			sel = fmt.Sprintf("(ite (= %s %s) %s %s)", nib, hexBV(uint64(j), 4), byteOf(fmt.Sprintf("T%d", t), j), sel)
		}
		return sel
	}
	for l := 0; l < 16; l++ {
		a := fmt.Sprintf("(bvadd bp (_ bv%d 64))", 2*l)
		w := fmt.Sprintf("(concat (select mem (bvadd %s (_ bv1 64))) (select mem %s))", a, a)
		n0 := fmt.Sprintf("((_ extract 3 0) %s)", w)
		n1 := fmt.Sprintf("((_ extract 7 4) %s)", w)
		n2 := fmt.Sprintf("((_ extract 11 8) %s)", w)
		n3 := fmt.Sprintf("((_ extract 15 12) %s)", w)
		lo := fmt.Sprintf("(bvxor %s (bvxor %s (bvxor %s %s)))", tb(0, n0), tb(1, n1), tb(2, n2), tb(3, n3))
		hi := fmt.Sprintf("(bvxor %s (bvxor %s (bvxor %s %s)))", tb(4, n0), tb(5, n1), tb(6, n2), tb(7, n3))
		exp := fmt.Sprintf("(concat %s %s)", hi, lo)
		oa := fmt.Sprintf("(bvadd cp (_ bv%d 64))", 2*l)
		if k.muladd {
			exp = fmt.Sprintf("(bvxor (concat (select mem (bvadd %s (_ bv1 64))) (select mem %s)) %s)", oa, oa, exp)
		}
		got := fmt.Sprintf("(concat (select %s (bvadd %s (_ bv1 64))) (select %s %s))", b.mem, oa, b.mem, oa)
		cr.asmObligation(fmt.Sprintf("%s#block-lane%02d:out word == xor of the eight nibble-table lookups of the in word", k.sym, l), "asm",
			base+fmt.Sprintf("(assert (not (= %s %s)))\n(check-sat)\n(get-model)\n", got, exp), "SIMD data path")
	}
	// frame and register update
	fr := fmt.Sprintf("(declare-const a0 (_ BitVec 64))\n(assert (or (bvult a0 cp) (bvuge a0 (bvadd cp (_ bv32 64)))))\n(assert (not (= (select %s a0) (select mem a0))))\n", b.mem)
	cr.asmObligation(k.sym+"#block-frame:only out[32j:32j+32] is written", "asm", base+fr+"(check-sat)\n(get-model)\n", "frame")
	var keep []string
	for t := 0; t < 8; t++ {
		keep = append(keep, fmt.Sprintf("(= %s T%d)", b.xmm[fmt.Sprintf("X%d", 8+t)], t))
	}
	keep = append(keep, fmt.Sprintf("(= %s #x00ff00ff00ff00ff00ff00ff00ff00ff)", b.xmm["X6"]), fmt.Sprintf("(= %s #x0f0f0f0f0f0f0f0f0f0f0f0f0f0f0f0f)", b.xmm["X7"]),
		fmt.Sprintf("(= %s (bvadd bp (_ bv32 64)))", b.reg["BX"]), fmt.Sprintf("(= %s (bvadd cp (_ bv32 64)))", b.reg["CX"]), fmt.Sprintf("(= %s (bvsub r (_ bv1 64)))", b.reg["AX"]))
	cont := fmt.Sprintf("(= (not %s) (not (= (bvsub r (_ bv1 64)) (_ bv0 64))))", b.zf)
	if jmp.op != "JNE" {
		cont = "false"
	}
	keep = append(keep, cont)
	cr.asmObligation(k.sym+"#inv-step:tables and masks preserved, BX+=32, CX+=32, AX-=1, loop continues iff AX != 0", "asm", base+"(assert (not (and "+strings.Join(keep, " ")+")))\n(check-sat)\n(get-model)\n", "loop step")
}
