package main

import (
	"math/big"
	"fmt"
	"go/ast"
	"go/token"
	"go/types"
	"sort"
	"strings"

	"golang.org/x/tools/go/ast/astutil"
	"golang.org/x/tools/go/ssa"
)

// Decl is one SMT command (declare/define) tagged with the block that introduced it.
type Decl struct {
	blk  int // block index, -1 = function prelude
	text string
}

// Fact is an assumption valid when its block is reached.
type Fact struct {
	blk      int
	seq      int
	t        Term
	isAssert bool // an obligation reused as assumption for later program points
	isExit   bool // "unreachable after os.Exit": not used by the vacuity probe
}

// Oblig is one proof obligation.
type Oblig struct {
	Fn    string
	Name  string
	Kind  string
	Desc  string
	blk   int
	seq   int
	goal  Term
	Pos   string
	Local []Term // extra hypotheses only for this obligation
	fc    *FnCtx
	// result
	Status  string // proved | refuted | unknown | timeout | error
	Solver  string
	Secs    float64
	Model   string
	Detail  string
	Size    int
	NoReach bool // vacuity probe: expected to be refuted
	File    string
	preSolved bool
	RawQuery string // complete SMT query (assembly obligations)
	InstTerms []Term // terms at which in-scope universally quantified facts are instantiated
	Cases    int64
	Replayed bool
}

type LoopInfo struct {
	header  *ssa.BasicBlock
	ord     int
	body    map[int]bool
	latches []*ssa.BasicBlock
	lc      *LoopContract
	confined      []ssa.Value
	confinedSorts map[Sort]bool
	preState *State // state at header (after havoc)
	measure  Term
	hasMeasure bool
	autoInv []autoInv
}

type autoInv struct {
	phi *ssa.Phi
	lo  Term
}

type FnCtx struct {
	eng  *Engine
	fn   *ssa.Function
	c    *Contract
	mode Mode
	pre  string
	name string // display name pkg.rel

	decls  []Decl
	vals   map[ssa.Value]Value
	in     map[int]*State
	out    map[int]*State
	reach  map[int]Term
	order  []*ssa.BasicBlock
	loops  map[int]*LoopInfo // by header block index
	anc    map[int]map[int]bool
	facts  []Fact
	obligs []*Oblig
	seq    int
	curBlk int
	cur    *State
	entry  *State
	nfresh int
	subset []string // unsupported effectful constructs
	notes  []string
	names  map[string]int
	params map[string]Value
	paramT map[string]types.Type
	ifaceSrc map[ssa.Value]ssa.Value // MakeInterface look-through
	closures map[ssa.Value]*ssa.MakeClosure
	deferred []*ssa.Defer
	axiomDone map[string]bool // function values whose contract axiom has been stated
	prevArgs map[string]prevCall // arguments of the most recent call of each callee (for prevK in assert-call clauses)
	rng      map[string][2]*big.Int // known interval of an Int term (implied by asserted type facts)
	roMemo   map[*ssa.Alloc]bool
	logical  map[string]binding // `logical n int` contract variables
	nfam     int
	fjPhi    *ssa.Phi // fork-join: loop counter of the spawning loop, checked at wg.Wait
	fjHi     string
	usedAssumed map[string]bool
	calledRepo  map[*ssa.Function]bool
	retIdx int
	unbound []string
	skipBody bool
	usedSpecs map[string]bool
	pureMode  bool
	pureSafety []Term // pureMode: guarded run-time-safety conditions met while translating the body
	pkgOverride *types.Package
	initPhase   bool
	lastCall    map[string]Value
	exitReach   []Term
	callSeen    map[string]int
	rangeGhost  map[*ssa.Range]string
	collectApps bool
	apps        []specApp
	opaqueRec   bool // recursive spec functions are uninterpreted; only explicit unfoldings are visible
}

type specApp struct {
	def  *SpecFnDef
	args []Term
}

func (e *Engine) newFnCtx(fn *ssa.Function) *FnCtx {
	fc := &FnCtx{
		eng: e, fn: fn, c: e.contractFor(fn),
		vals: map[ssa.Value]Value{}, in: map[int]*State{}, out: map[int]*State{},
		reach: map[int]Term{}, loops: map[int]*LoopInfo{}, anc: map[int]map[int]bool{},
		names: map[string]int{}, params: map[string]Value{}, paramT: map[string]types.Type{},
		ifaceSrc: map[ssa.Value]ssa.Value{}, closures: map[ssa.Value]*ssa.MakeClosure{},
		usedAssumed: map[string]bool{}, calledRepo: map[*ssa.Function]bool{},
	}
	fc.mode = ModeInt
	if fc.c != nil && fc.c.ModeSet {
		fc.mode = fc.c.Mode
	}
	if fc.c != nil && fc.c.InitPhase {
		fc.initPhase = true
	}
	if fc.c != nil && fc.c.Opaque {
		fc.opaqueRec = true
	}
	pk := ""
	if fn.Pkg != nil {
		pk = fn.Pkg.Pkg.Name()
	} else if fn.Parent() != nil && fn.Parent().Pkg != nil {
		pk = fn.Parent().Pkg.Pkg.Name()
	}
	fc.name = pk + "." + relName(fn)
	fc.pre = "f"
	return fc
}

func (fc *FnCtx) freshName(base string) string {
	fc.nfresh++
	return fmt.Sprintf("%s!%d", base, fc.nfresh)
}

func (fc *FnCtx) declare(name string, s Sort) Term {
	fc.decls = append(fc.decls, Decl{fc.curBlk, fmt.Sprintf("(declare-const %s %s)", smtName(name), s)})
	return Term{smtName(name), s}
}

// defineEq names a term by a constant and an equation (never a macro): the name may then occur
// in quantifier patterns even if the term contains an ite.
func (fc *FnCtx) defineEq(name string, t Term) Term {
	fc.decls = append(fc.decls, Decl{fc.curBlk, fmt.Sprintf("(declare-const %s %s)\n(assert (= %s %s))", smtName(name), t.Sort, smtName(name), t.S)})
	return Term{smtName(name), t.Sort}
}

func (fc *FnCtx) define(name string, t Term) Term {
	// keep small terms inline
	if len(t.S) < 24 {
		return t
	}
	if t.Sort.IsArr() && !fc.pureMode {
		// heap-sized terms are named by an equation rather than a macro, so that the
		// solver does not expand a chain of n stores into a term of size 2^n
		fc.decls = append(fc.decls, Decl{fc.curBlk, fmt.Sprintf("(declare-const %s %s)\n(assert (= %s %s))", smtName(name), t.Sort, smtName(name), t.S)})
		return Term{smtName(name), t.Sort}
	}
	fc.decls = append(fc.decls, Decl{fc.curBlk, fmt.Sprintf("(define-fun %s () %s %s)", smtName(name), t.Sort, t.S)})
	return Term{smtName(name), t.Sort}
}

func (fc *FnCtx) freshConst(base string, s Sort) Term {
	return fc.declare(fc.freshName(base), s)
}

// freshValue creates an unconstrained value of a shape.
func (fc *FnCtx) freshValue(base string, sh Shape) Value {
	switch sh.K {
	case KLeaf:
		return Leaf(fc.freshConst(base, sh.Sort))
	case KOpaque:
		return Value{K: KOpaque}
	}
	v := Value{K: sh.K}
	suffix := []string{"a", "b", "c", "d"}
	for i, e := range sh.E {
		sfx := fmt.Sprintf("%d", i)
		if (sh.K == KPtr || sh.K == KSlice || sh.K == KIface) && i < 4 {
			sfx = []string{"obj", "off", "len", "cap"}[i]
			if sh.K == KIface {
				sfx = []string{"typ", "val"}[i]
			}
		}
		_ = suffix
		v.E = append(v.E, fc.freshValue(base+"."+sfx, e))
	}
	return v
}

// defineValue binds each leaf of v to a named definition (keeps terms small).
func (fc *FnCtx) defineValue(base string, v Value) Value {
	switch v.K {
	case KLeaf:
		return Leaf(fc.define(fc.freshName(base), v.T))
	case KOpaque:
		return v
	}
	out := Value{K: v.K}
	for _, e := range v.E {
		out.E = append(out.E, fc.defineValue(base, e))
	}
	return out
}

func (fc *FnCtx) assume(t Term) {
	if t.S == "true" || fc.pureMode {
		return
	}
	fc.seq++
	fc.facts = append(fc.facts, Fact{blk: fc.curBlk, seq: fc.seq, t: t})
}

var safetyKinds = map[string]bool{"pre": true, "pre-nopanic": true, "pre-global": true, "bounds": true, "nil": true, "makelen": true, "div0": true, "typeassert": true, "shift": true, "nilmap": true, "panic": true}

func (fc *FnCtx) oblige(kind, desc string, pos token.Pos, goal Term) *Oblig {
	if fc.pureMode {
		// translating a helper as a term: its run-time-safety conditions are collected (guarded by
		// the path to them) and become one obligation at every call site (helperSafety)
		if safetyKinds[kind] && goal.S != "true" {
			guard := TTrue
			if r, ok := fc.reach[fc.curBlk]; ok {
				guard = r
			}
			fc.pureSafety = append(fc.pureSafety, Implies(guard, goal))
		}
		return &Oblig{}
	}
	if fc.c != nil && fc.c.SkipSafety && safetyKinds[kind] {
		// effects-only contract: "if the function does not panic, then ..."
		fc.assume(goal)
		return &Oblig{}
	}
	fc.seq++
	base := fmt.Sprintf("%s#%s:%s", fc.name, kind, desc)
	n := fc.names[base]
	fc.names[base] = n + 1
	o := &Oblig{Fn: fc.name, Name: fmt.Sprintf("%s#%d", base, n), Kind: kind, Desc: desc,
		blk: fc.curBlk, seq: fc.seq, goal: goal, fc: fc}
	if pos.IsValid() {
		p := fc.eng.fset.Position(pos)
		o.Pos = fmt.Sprintf("%s:%d", shortPath(p.Filename), p.Line)
	}
	fc.obligs = append(fc.obligs, o)
	// after asserting, the fact may be assumed downstream
	if goal.S != "true" {
		fc.seq++
		fc.facts = append(fc.facts, Fact{blk: fc.curBlk, seq: fc.seq, t: goal, isAssert: true})
	}
	return o
}

// typeFacts returns well-formedness assumptions for a fresh value of type t.
func (fc *FnCtx) typeFacts(t types.Type, v Value, next Term) []Term {
	var out []Term
	switch u := t.Underlying().(type) {
	case *types.Basic:
		if bits, signed, ok := basicIntInfo(u); ok && v.K == KLeaf && v.T.Sort == SInt {
			lo, hi := intRange(bits, signed)
			out = append(out, Le(lo, v.T), Le(v.T, hi))
		}
		if u.Kind() == types.String && v.K == KLeaf {
			out = append(out, Ge(strLen(v.T), IntLit(0)))
		}
	case *types.Pointer:
		if v.K == KPtr {
			out = append(out, Lt(v.Obj(), next), Ge(v.Off(), IntLit(0)))
			out = append(out, Implies(Eq(v.Obj(), IntLit(0)), Eq(v.Off(), IntLit(0))))
			if f := fc.eng.otypeFact(v.Obj(), t); f.S != "true" {
				out = append(out, f)
			}
		}
	case *types.Slice:
		if v.K == KSlice {
			// the same bounds, for the interval tracker that removes impossible wrap-arounds
			fc.noteRange(v.Len(), big.NewInt(0), big.NewInt(maxSliceCapInt))
			fc.noteRange(v.Cap(), big.NewInt(0), big.NewInt(maxSliceCapInt))
			if f := fc.eng.otypeFact(v.Obj(), t); f.S != "true" {
				out = append(out, f)
			}
			out = append(out, Lt(v.Obj(), next), Ge(v.Off(), IntLit(0)),
				Le(IntLit(0), v.Len()), Le(v.Len(), v.Cap()), Le(Mul(v.Cap(), IntLit(fc.eng.sizeofType(u.Elem()))), Term{"maxSliceCap", SInt}),
				Implies(Eq(v.Obj(), IntLit(0)), And(Eq(v.Cap(), IntLit(0)), Eq(v.Off(), IntLit(0)))))
		}
	case *types.Struct:
		if v.K == KStruct {
			for i := 0; i < u.NumFields(); i++ {
				out = append(out, fc.typeFacts(u.Field(i).Type(), v.E[i], next)...)
			}
		}
	case *types.Tuple:
		if v.K == KTuple {
			for i := 0; i < u.Len(); i++ {
				out = append(out, fc.typeFacts(u.At(i).Type(), v.E[i], next)...)
			}
		}
	case *types.Map, *types.Chan:
		if v.K == KLeaf {
			out = append(out, Lt(v.T, next), Ge(v.T, IntLit(0)))
			if _, isMap := u.(*types.Map); isMap {
				out = append(out, Or(Eq(v.T, IntLit(0)), Eq(otypeOf(v.T), IntLit(fc.eng.typeIDByName(types.TypeString(t, nil))))))
				out = append(out, Ge(Select(fc.mlenTerm(), v.T), IntLit(0)))
			}
		}
	case *types.Interface:
		if v.K == KIface {
			out = append(out, Ge(v.E[0].T, IntLit(0)))
			out = append(out, Implies(Eq(v.E[0].T, IntLit(0)), Eq(v.E[1].T, IntLit(0))))
		}
	}
	return out
}

func (fc *FnCtx) mlenTerm() Term {
	if fc.cur != nil {
		return fc.cur.mlen
	}
	return fc.entry.mlen
}

func intRange(bits int, signed bool) (Term, Term) {
	if signed {
		lo := new(bigInt).Neg(pow2(bits - 1))
		hi := new(bigInt).Sub(pow2(bits-1), bigOne)
		return IntLitBig(lo), IntLitBig(hi)
	}
	hi := new(bigInt).Sub(pow2(bits), bigOne)
	return IntLit(0), IntLitBig(hi)
}

func strLen(s Term) Term { return mk(SInt, "s_len", s) }

// ---------------------------------------------------------------------

// analyze computes RPO, back edges, natural loops, ancestors.
func (fc *FnCtx) analyze() {
	fn := fc.fn
	n := len(fn.Blocks)
	isBack := func(u, h *ssa.BasicBlock) bool { return h.Dominates(u) }
	// RPO over non-back edges
	visited := make([]bool, n)
	var post []*ssa.BasicBlock
	var dfs func(b *ssa.BasicBlock)
	dfs = func(b *ssa.BasicBlock) {
		visited[b.Index] = true
		for _, s := range b.Succs {
			if isBack(b, s) {
				continue
			}
			if !visited[s.Index] {
				dfs(s)
			}
		}
		post = append(post, b)
	}
	dfs(fn.Blocks[0])
	for i := len(post) - 1; i >= 0; i-- {
		fc.order = append(fc.order, post[i])
	}
	// loops
	for _, b := range fn.Blocks {
		if !visited[b.Index] {
			continue
		}
		for _, s := range b.Succs {
			if isBack(b, s) {
				li := fc.loops[s.Index]
				if li == nil {
					li = &LoopInfo{header: s, body: map[int]bool{s.Index: true}}
					fc.loops[s.Index] = li
				}
				li.latches = append(li.latches, b)
				// natural loop body
				stack := []*ssa.BasicBlock{b}
				for len(stack) > 0 {
					x := stack[len(stack)-1]
					stack = stack[:len(stack)-1]
					if li.body[x.Index] {
						continue
					}
					li.body[x.Index] = true
					for _, p := range x.Preds {
						stack = append(stack, p)
					}
				}
			}
		}
	}
	// ordinals by header block index
	var hs []int
	for h := range fc.loops {
		hs = append(hs, h)
	}
	sort.Ints(hs)
	ords := fc.eng.alignLoops(fc.fn, len(hs))
	bound := map[int]bool{}
	for i, h := range hs {
		fc.loops[h].ord = ords[i]
		bound[ords[i]] = true
		if fc.c != nil {
			fc.loops[h].lc = fc.c.Loops[ords[i]]
		}
	}
	if fc.c != nil {
		for k := range fc.c.Loops {
			if !bound[k] {
				fc.unbound = append(fc.unbound, fmt.Sprintf("loop %d (function has %d loops, none corresponds to it)", k, len(hs)))
			}
		}
	}
	// ancestors (strict) in the cut DAG
	for _, b := range fc.order {
		a := map[int]bool{}
		for _, p := range b.Preds {
			if isBack(p, b) || !visited[p.Index] {
				continue
			}
			a[p.Index] = true
			for k := range fc.anc[p.Index] {
				a[k] = true
			}
		}
		fc.anc[b.Index] = a
	}
}

func (fc *FnCtx) isBackEdge(u, h *ssa.BasicBlock) bool { return h.Dominates(u) }

// edgeCond is the condition under which control passes from p to s.
func (fc *FnCtx) edgeCond(p, s *ssa.BasicBlock) Term {
	r := fc.reach[p.Index]
	if len(p.Instrs) > 0 {
		if iff, ok := p.Instrs[len(p.Instrs)-1].(*ssa.If); ok {
			c := fc.val(iff.Cond).T
			if p.Succs[0] == s && p.Succs[1] == s {
				return r
			}
			if p.Succs[0] == s {
				return And(r, c)
			}
			return And(r, Not(c))
		}
	}
	return r
}

// ---------------------------------------------------------------------

func (fc *FnCtx) initialState() *State {
	s := &State{heap: map[Sort]Term{}, ghost: map[string]Term{}, fc: fc}
	for _, hs := range heapSorts {
		s.heap[hs] = fc.declare("H0_"+sortTag(hs), heapSort(hs))
	}
	s.next = fc.declare("next0", SInt)
	s.mdom = fc.declare("mdom0", SArr(SInt, SArr(SInt, SBool)))
	s.mlen = fc.declare("mlen0", SArr(SInt, SInt))
	var gs []string
	for g := range fc.eng.ghosts {
		gs = append(gs, g)
	}
	sort.Strings(gs)
	for _, g := range gs {
		s.ghost[g] = fc.declare("G0_"+g, ghostSort(fc.eng.ghosts[g].Type))
	}
	return s
}

func ghostSort(t string) Sort {
	switch t {
	case "bool":
		return SBool
	case "str":
		return SStr
	}
	return SInt
}

// translate builds all obligations of the function.
func (fc *FnCtx) translate() {
	fn := fc.fn
	if len(fn.Blocks) == 0 {
		return
	}
	fc.analyze()
	fc.curBlk = -1
	if fc.c != nil && len(fc.c.Logical) > 0 {
		fc.logical = map[string]binding{}
		for _, lv := range fc.c.Logical {
			var lt types.Type = specIntType
			if te, ok := fc.c.LogicalTypes[lv]; ok && fc.fn.Pkg != nil {
				// evaluate in the file scope of the package's contracts file (its imports are visible there)
				at := token.NoPos
				sc := fc.fn.Pkg.Pkg.Scope()
				for _, n := range sc.Names() {
					o := sc.Lookup(n)
					if strings.Contains(fc.eng.prog.Fset.Position(o.Pos()).Filename, "verif_contracts") {
						at = o.Pos()
						break
					}
				}
				if tv, err := types.Eval(fc.eng.prog.Fset, fc.fn.Pkg.Pkg, at, te); err == nil && tv.IsType() {
					lt = tv.Type
				} else {
					fc.unbound = append(fc.unbound, fmt.Sprintf("logical %s: cannot evaluate type %q", lv, te))
				}
			}
			sh := shapeOf(lt, fc.mode)
			if sh.K != KLeaf {
				fc.unbound = append(fc.unbound, fmt.Sprintf("logical %s: only scalar and function types", lv))
				continue
			}
			fc.logical[lv] = binding{Leaf(fc.freshConst("logical_"+lv, sh.Sort)), lt}
		}
	}
	st := fc.initialState()
	// one "visited" ghost set per range-over-map iterator
	fc.rangeGhost = map[*ssa.Range]string{}
	for _, b := range fn.Blocks {
		for _, ins := range b.Instrs {
			if r, ok := ins.(*ssa.Range); ok {
				if _, isMap := r.X.Type().Underlying().(*types.Map); isMap {
					name := "vis_" + r.Name()
					fc.rangeGhost[r] = name
					st.ghost[name] = Term{"((as const (Array Int Bool)) false)", SArr(SInt, SBool)}
				}
			}
		}
	}
	fc.entry = st.clone()
	fc.assume(Gt(st.next, IntLit(0)))
	// Object ids are abstract: take every object allocated before entry to have an id
	// above all machine integers, so that every reference stored in the entry heap
	// (and every integer) is below next0.
	fc.assume(Gt(st.next, IntLitBig(pow2(65))))
	{
		h := st.heap[SInt]
		body := Lt(Select(Select(h, Term{"o!e", SInt}), Term{"f!e", SInt}), st.next)
		fc.assume(Term{fmt.Sprintf("(forall ((o!e Int) (f!e Int)) (! %s :pattern (%s)))", body.S, Select(Select(h, Term{"o!e", SInt}), Term{"f!e", SInt}).S), SBool})
	}
	// parameters
	for _, p := range fn.Params {
		sh := shapeOf(p.Type(), fc.mode)
		v := fc.freshValue("p_"+p.Name(), sh)
		fc.vals[p] = v
		fc.params[p.Name()] = v
		fc.paramT[p.Name()] = p.Type()
		for _, f := range fc.typeFacts(p.Type(), v, st.next) {
			fc.assume(f)
		}
	}
	for _, p := range fn.FreeVars {
		sh := shapeOf(p.Type(), fc.mode)
		v := fc.freshValue("fv_"+p.Name(), sh)
		fc.vals[p] = v
		for _, f := range fc.typeFacts(p.Type(), v, st.next) {
			fc.assume(f)
		}
		if v.K == KPtr {
			fc.assume(Not(Eq(v.Obj(), IntLit(0))))
		}
	}
	// implicit requires: pointer-like parameters are non-nil (checked at every call site)
	for _, p := range fn.Params {
		if t := nonNilTerm(fc.vals[p], p.Type()); !t.IsZero() && !fc.c.isNilable(p.Name()) {
			fc.assume(t)
		}
	}
	// requires
	fc.curBlk = 0
	fc.cur = st
	if fc.c != nil {
		env := fc.entryEnv()
		for _, r := range fc.c.Requires {
			t, err := fc.specBool(env, r.Text)
			if err != nil {
				fc.unbound = append(fc.unbound, fmt.Sprintf("requires %q: %v", r.Text, err))
				continue
			}
			fc.assume(t)
		}
		if fc.c.Panics != nil {
			t, err := fc.specBool(env, fc.c.Panics.Text)
			if err != nil {
				fc.unbound = append(fc.unbound, fmt.Sprintf("panics %q: %v", fc.c.Panics.Text, err))
			} else {
				_ = t
			}
		}
		for _, g := range fc.c.Globals {
			t, err := fc.specBool(env, g)
			if err != nil {
				fc.unbound = append(fc.unbound, fmt.Sprintf("global %q: %v", g, err))
				continue
			}
			fc.assume(t)
		}
		for _, u := range fc.c.Uses {
			t, err := fc.lemmaUse(env, nil, u)
			if err != nil {
				fc.unbound = append(fc.unbound, fmt.Sprintf("uses %q: %v", u, err))
				continue
			}
			fc.assume(t)
		}
	}
	for _, b := range fc.order {
		fc.block(b)
	}
	// a call-site assertion whose call has disappeared is a failed obligation, not a vacuous one
	if fc.c != nil {
		fc.curBlk = -1
		for i := range fc.c.CallAsserts {
			ca := &fc.c.CallAsserts[i]
			if ca.Hits == 0 {
				o := fc.oblige("assert-call", ca.Callee+": no matching call site for "+ca.Clause.Text, fn.Pos(), TFalse)
				o.preSolved, o.Status, o.Solver = true, "refuted", "static"
			}
		}
	}
}

// joinStates computes the in-state and reach condition of a block.
func (fc *FnCtx) block(b *ssa.BasicBlock) {
	fc.curBlk = b.Index
	li := fc.loops[b.Index]
	// reach condition from non-back preds
	var conds []Term
	var preds []*ssa.BasicBlock
	for _, p := range b.Preds {
		if fc.isBackEdge(p, b) {
			continue
		}
		if _, ok := fc.reach[p.Index]; !ok {
			continue // unreachable pred
		}
		preds = append(preds, p)
		conds = append(conds, fc.edgeCond(p, b))
	}
	var st *State
	if b.Index == 0 {
		fc.reach[0] = TTrue
		st = fc.cur
	} else {
		if len(preds) == 0 {
			return
		}
		fc.reach[b.Index] = fc.define(fmt.Sprintf("R_b%d", b.Index), Or(conds...))
		// join states
		st = fc.out[preds[0].Index].clone()
		if len(preds) > 1 {
			for _, c := range st.comps() {
				same := true
				first := fc.out[preds[0].Index].get(c)
				for _, p := range preds[1:] {
					if fc.out[p.Index].get(c).S != first.S {
						same = false
					}
				}
				if same {
					continue
				}
				t := fc.out[preds[len(preds)-1].Index].get(c)
				for i := len(preds) - 2; i >= 0; i-- {
					t = Ite(conds[i], fc.out[preds[i].Index].get(c), t)
				}
				st.set(c, fc.define(fmt.Sprintf("%s_b%d", compTag(c), b.Index), t))
			}
		}
	}
	fc.cur = st
	// phis
	if li == nil {
		for _, ins := range b.Instrs {
			phi, ok := ins.(*ssa.Phi)
			if !ok {
				break
			}
			var v Value
			first := true
			for i := len(b.Preds) - 1; i >= 0; i-- {
				p := b.Preds[i]
				if _, ok := fc.reach[p.Index]; !ok {
					continue
				}
				ev := fc.val(phi.Edges[i])
				if first {
					v = ev
					first = false
					continue
				}
				v = fc.iteValue(fc.edgeCond(p, b), ev, v)
			}
			fc.vals[phi] = fc.defineValue(fc.vname(phi), v)
		}
	} else {
		fc.loopHeader(b, li, preds, conds)
	}
	for _, ins := range b.Instrs {
		if _, ok := ins.(*ssa.Phi); ok {
			continue
		}
		fc.instr(ins)
	}
	fc.out[b.Index] = fc.cur
	// back edges leaving this block: check invariants
	for _, s := range b.Succs {
		if fc.isBackEdge(b, s) {
			fc.loopBackEdge(b, s)
		}
	}
}

func (fc *FnCtx) vname(v ssa.Value) string {
	return "v_" + v.Name()
}

func (fc *FnCtx) iteValue(c Term, a, b Value) Value {
	if a.K != b.K || len(a.E) != len(b.E) {
		if a.K == KOpaque || b.K == KOpaque {
			return Value{K: KOpaque}
		}
		panic(fmt.Sprintf("iteValue shape mismatch %v %v", a, b))
	}
	if a.K == KLeaf {
		if a.T.Sort != b.T.Sort {
			panic(fmt.Sprintf("iteValue sort mismatch %s:%s %s:%s", a.T.S, a.T.Sort, b.T.S, b.T.Sort))
		}
		return Leaf(Ite(c, a.T, b.T))
	}
	out := Value{K: a.K}
	for i := range a.E {
		out.E = append(out.E, fc.iteValue(c, a.E[i], b.E[i]))
	}
	return out
}

// loopHeader havocs loop-carried state, assumes invariants, and checks them on entry.
func (fc *FnCtx) loopHeader(b *ssa.BasicBlock, li *LoopInfo, preds []*ssa.BasicBlock, conds []Term) {
	// 1. invariants on entry edges (evaluated with entry values)
	preState := fc.cur
	for k, p := range preds {
		_ = k
		env := fc.edgeEnv(b, p, fc.out[p.Index])
		fc.checkInvariants(li, env, "inv-init", fc.edgeCondLocal(p, b))
	}
	// 2. havoc
	st := preState.clone()
	modSorts, modAll, ghostMod, allocs := fc.loopEffects(li)
	// Sorts written in pre-existing objects are havocked; if the loop only
	// allocates, every heap still changes (fresh objects are initialised) but
	// objects that existed at loop entry keep their contents.
	oq := Term{"o!lf", SInt}
	var keep []Term
	for _, hs := range heapSorts {
		if modAll || modSorts[hs] {
			st.heap[hs] = fc.declare(fmt.Sprintf("H_%s_loop%d", sortTag(hs), li.ord), heapSort(hs))
		} else if allocs {
			nh := fc.declare(fmt.Sprintf("H_%s_loop%d", sortTag(hs), li.ord), heapSort(hs))
			eq := Eq(Select(nh, oq), Select(preState.heap[hs], oq))
			if li.confinedSorts[hs] {
				var ex []Term
				known := true
				for _, a := range li.confined {
					if p, ok := fc.vals[a]; ok && (p.K == KPtr || p.K == KSlice) {
						ex = append(ex, Eq(oq, p.Obj()))
					} else {
						known = false
					}
				}
				if !known {
					st.heap[hs] = nh
					continue // cannot name the written object: no frame for this sort
				}
				eq = Or(append(ex, eq)...)
			}
			keep = append(keep, eq)
			st.heap[hs] = nh
		}
	}
	if modAll || modSorts["mdom"] {
		st.mdom = fc.declare(fmt.Sprintf("mdom_loop%d", li.ord), st.mdom.Sort)
		st.mlen = fc.declare(fmt.Sprintf("mlen_loop%d", li.ord), st.mlen.Sort)
	} else if allocs {
		nd := fc.declare(fmt.Sprintf("mdom_loop%d", li.ord), st.mdom.Sort)
		nl := fc.declare(fmt.Sprintf("mlen_loop%d", li.ord), st.mlen.Sort)
		keep = append(keep, Eq(Select(nd, oq), Select(preState.mdom, oq)), Eq(Select(nl, oq), Select(preState.mlen, oq)))
		st.mdom, st.mlen = nd, nl
	}
	for _, k := range keep {
		body := Implies(Lt(oq, preState.next), k)
		fc.assume(Term{fmt.Sprintf("(forall ((o!lf Int)) %s)", body.S), SBool})
	}
	fc.keepReadOnlyLocals(preState, st, b)
	if allocs {
		nn := fc.declare(fmt.Sprintf("next_loop%d", li.ord), SInt)
		fc.assume(Ge(nn, preState.next))
		st.next = nn
	}
	for g := range ghostMod {
		st.ghost[g] = fc.declare(fmt.Sprintf("G_%s_loop%d", g, li.ord), st.ghost[g].Sort)
	}
	fc.cur = st
	for _, ins := range b.Instrs {
		phi, ok := ins.(*ssa.Phi)
		if !ok {
			break
		}
		sh := shapeOf(phi.Type(), fc.mode)
		v := fc.freshValue(fc.vname(phi), sh)
		fc.vals[phi] = v
		for _, f := range fc.typeFacts(phi.Type(), v, st.next) {
			fc.assume(f)
		}
	}
	li.preState = st.clone()
	// 3. assume invariants at header
	env := fc.blockEnv(b, st)
	fc.assumeInvariants(li, env)
	// measure at header
	if li.lc != nil && li.lc.Decreases != nil {
		sv, err := fc.specExpr(env, li.lc.Decreases.Text)
		if err != nil {
			fc.unbound = append(fc.unbound, fmt.Sprintf("loop %d decreases: %v", li.ord, err))
		} else {
			m, ok := fc.measureTerm(sv)
			if ok {
				li.measure = fc.define(fmt.Sprintf("measure_loop%d", li.ord), m)
				li.hasMeasure = true
			} else {
				fc.unbound = append(fc.unbound, fmt.Sprintf("loop %d decreases: not an integer", li.ord))
			}
		}
	}
}

// measureTerm: unsigned bit-vectors are compared as such; everything else as Int.
func (fc *FnCtx) measureTerm(sv sval) (Term, bool) {
	if !sv.isConst && sv.v.K == KLeaf && sv.v.T.Sort.IsBV() && sv.t != nil {
		if _, signed, ok := intInfo(sv.t); ok && !signed {
			return sv.v.T, true
		}
	}
	return fc.toIntTerm(sv)
}

func (fc *FnCtx) edgeCondLocal(p, s *ssa.BasicBlock) Term { return fc.edgeCond(p, s) }

// loopBackEdge checks invariants and the measure along a back edge b -> h.
func (fc *FnCtx) loopBackEdge(b, h *ssa.BasicBlock) {
	li := fc.loops[h.Index]
	cond := fc.edgeCond(b, h)
	env := fc.edgeEnv(h, b, fc.cur)
	fc.loopUses(li, env)
	if li.lc != nil && len(li.lc.UsesStep) > 0 {
		senv := fc.newEnv(fc.cur)
		senv.atBlk = b
		senv.wholeBlk = true
		senv.headEnv = fc.blockEnv(h, li.preState)
		for _, u := range li.lc.UsesStep {
			t, err := fc.lemmaUse(senv, nil, u)
			if err != nil {
				fc.unbound = append(fc.unbound, fmt.Sprintf("loop %d use-step %q: %v", li.ord, u, err))
				continue
			}
			fc.assume(t)
		}
	}
	fc.checkInvariants(li, env, "inv-step", cond)
	if li.hasMeasure {
		sv, err := fc.specExpr(env, li.lc.Decreases.Text)
		if err == nil {
			m, ok := fc.measureTerm(sv)
			if ok && m.Sort == li.measure.Sort {
				var goal Term
				if m.Sort.IsBV() {
					goal = Implies(cond, bvcmp("bvult", m, li.measure))
				} else {
					goal = Implies(cond, And(Lt(m, li.measure), Ge(li.measure, IntLit(0))))
				}
				fc.obligeAt(b, "decreases", fmt.Sprintf("loop%d:%s", li.ord, li.lc.Decreases.Text), token.NoPos, goal)
			}
		}
	}
}

// obligeAt is oblige with an edge-conditional goal already containing its guard;
// the obligation is attached to the end of block b.
func (fc *FnCtx) obligeAt(b *ssa.BasicBlock, kind, desc string, pos token.Pos, goal Term) *Oblig {
	save := fc.curBlk
	fc.curBlk = b.Index
	o := fc.oblige(kind, desc, pos, goal)
	// an edge-conditional check must not become a downstream assumption under R_b
	// (it is guarded by the edge condition itself, so it is harmless) - keep.
	fc.curBlk = save
	return o
}

func (fc *FnCtx) checkInvariants(li *LoopInfo, env *Env, kind string, guard Term) {
	blk := env.atBlk
	for _, ai := range li.autoInv {
		_ = ai
	}
	if li.lc != nil {
		for _, inv := range li.lc.Invariants {
			if len(inv.Props) > 0 && fc.eng.curProp != "" && !hasProp(inv.Props, fc.eng.curProp) {
				continue
			}
			t, sks, err := fc.specBoolGoal(env, inv.Text)
			if err != nil {
				fc.unbound = append(fc.unbound, fmt.Sprintf("loop %d invariant %q: %v", li.ord, inv.Text, err))
				continue
			}
			o := fc.obligeAt(blk, kind, fmt.Sprintf("loop%d:%s", li.ord, inv.Text), token.NoPos, Implies(guard, t))
			fc.addInsts(o, env, sks)
			if len(sks) > 0 {
				// downstream code may assume the quantified form, not the skolemised one
				fc.dropLastAssertFact()
				if qt, qerr := fc.specBool(env, inv.Text); qerr == nil {
					fc.seq++
					fc.facts = append(fc.facts, Fact{blk: blk.Index, seq: fc.seq, t: Implies(guard, qt), isAssert: true})
				}
			}
		}
	}
	// automatic counter invariants
	for _, t := range fc.autoInvariants(li, env) {
		fc.obligeAt(blk, kind, fmt.Sprintf("loop%d:auto:%s", li.ord, t.desc), token.NoPos, Implies(guard, t.t))
	}
	// frame
	if fr, ok := fc.loopFrame(li, env.st); ok {
		labels, parts := frameParts(fr)
		for i := range parts {
			fc.obligeAt(blk, kind, fmt.Sprintf("loop%d:frame[%s]", li.ord, labels[i]), token.NoPos, Implies(guard, parts[i]))
		}
	}
	if fc.c != nil {
		for _, pz := range fc.c.Preserves {
			if eqs, err := fc.preservesEqs(fc.entryEnv(), pz, fc.entry, env.st); err == nil {
				fc.obligeAt(blk, kind, fmt.Sprintf("loop%d:preserves %s", li.ord, pz), token.NoPos, Implies(guard, eqs))
			}
		}
	}
}

func (fc *FnCtx) assumeInvariants(li *LoopInfo, env *Env) {
	if li.lc != nil {
		for _, inv := range li.lc.Invariants {
			if len(inv.Props) > 0 && fc.eng.curProp != "" && !hasProp(inv.Props, fc.eng.curProp) {
				continue
			}
			t, err := fc.specBool(env, inv.Text)
			if err != nil {
				continue
			}
			fc.assume(t)
		}
	}
	for _, t := range fc.autoInvariants(li, env) {
		fc.assume(t.t)
	}
	if fr, ok := fc.loopFrame(li, env.st); ok {
		fc.assume(fr)
		// `modifies nothing`: the same fact, ground, for the objects of the parameters
		items := fc.c.Modifies
		if li.lc != nil && li.lc.HasMod {
			items = li.lc.Modifies
		}
		if len(items) == 0 {
			fc.groundKeep(fc.entry, env.st, nil)
			// `modifies nothing`: stated also object by object (equal inner arrays follow from equal
			// cells by extensionality), so that terms over whole objects -- bytes(x), md5(bytes(x)) --
			// are seen to be unchanged by congruence
			o := Term{"o!fr", SInt}
			for _, hs := range heapSorts {
				if fc.entry.heap[hs].S == env.st.heap[hs].S {
					continue
				}
				body := Implies(Lt(o, fc.entry.next), Eq(Select(env.st.heap[hs], o), Select(fc.entry.heap[hs], o)))
				fc.assume(Term{fmt.Sprintf("(forall ((o!fr Int)) (! %s :pattern (%s)))", body.S, Select(env.st.heap[hs], o).S), SBool})
			}
		}
		_ = items
	}
	if fc.c != nil {
		for _, pz := range fc.c.Preserves {
			if eqs, err := fc.preservesEqs(fc.entryEnv(), pz, fc.entry, env.st); err == nil {
				fc.assume(eqs)
			}
		}
	}
	fc.loopUses(li, env)
}

func (fc *FnCtx) loopUses(li *LoopInfo, env *Env) {
	if li.lc == nil {
		return
	}
	for _, u := range li.lc.Uses {
		t, err := fc.lemmaUse(env, nil, u)
		if err != nil {
			fc.unbound = append(fc.unbound, fmt.Sprintf("loop %d use %q: %v", li.ord, u, err))
			continue
		}
		fc.assume(t)
	}
}

type descTerm struct {
	desc string
	t    Term
}

// autoInvariants infers lower bounds for monotone integer counters:
// phi = [const c on entry, phi + positive const on back edges]  =>  phi >= c.
func (fc *FnCtx) autoInvariants(li *LoopInfo, env *Env) []descTerm {
	var out []descTerm
	h := li.header
	for _, ins := range h.Instrs {
		phi, ok := ins.(*ssa.Phi)
		if !ok {
			break
		}
		bits, _, isInt := intInfo(phi.Type())
		if !isInt || bits != 64 || fc.mode != ModeInt {
			continue
		}
		var lo *int64
		okPat := true
		for i, p := range h.Preds {
			ev := phi.Edges[i]
			if fc.isBackEdge(p, h) {
				bo, isBin := ev.(*ssa.BinOp)
				if !isBin || bo.Op != token.ADD {
					okPat = false
					break
				}
				c, isC := bo.Y.(*ssa.Const)
				if bo.X != ssa.Value(phi) || !isC || c.Value == nil || c.Int64() <= 0 {
					okPat = false
					break
				}
			} else {
				c, isC := ev.(*ssa.Const)
				if !isC || c.Value == nil {
					okPat = false
					break
				}
				v := c.Int64()
				if lo == nil || v < *lo {
					lo = &v
				}
			}
		}
		if !okPat || lo == nil {
			continue
		}
		cur := env.phiValue(phi)
		if cur.K != KLeaf || cur.T.Sort != SInt {
			continue
		}
		out = append(out, descTerm{fmt.Sprintf("%s>=%d", phi.Comment, *lo), Ge(cur.T, IntLit(*lo))})
		// range-over-slice loops increment before comparing: index < length is invariant
		if h.Comment == "rangeindex.loop" {
			for _, hi := range h.Instrs {
				cmp, ok := hi.(*ssa.BinOp)
				if !ok || cmp.Op != token.LSS {
					continue
				}
				add, ok := cmp.X.(*ssa.BinOp)
				if !ok || add.X != ssa.Value(phi) {
					continue
				}
				if _, defined := fc.vals[cmp.Y]; !defined {
					if _, isConst := cmp.Y.(*ssa.Const); !isConst {
						continue
					}
				}
				lim := fc.val(cmp.Y)
				if lim.K == KLeaf && lim.T.Sort == SInt {
					out = append(out, descTerm{fmt.Sprintf("%s<len", phi.Comment), Lt(cur.T, lim.T)})
				}
			}
		}
	}
	return out
}

// loopEffects scans the loop body for heap effects.
func (fc *FnCtx) loopEffects(li *LoopInfo) (mod map[Sort]bool, all bool, ghosts map[string]bool, allocs bool) {
	mod = map[Sort]bool{}
	ghosts = map[string]bool{}
	li.confined = nil
	li.confinedSorts = map[Sort]bool{}
	for _, b := range fc.fn.Blocks {
		if !li.body[b.Index] {
			continue
		}
		for _, ins := range b.Instrs {
			switch x := ins.(type) {
			case *ssa.Store:
				if base := addrBase(x.Addr); base != nil {
					if a, ok := base.(*ssa.Alloc); ok && li.body[a.Block().Index] {
						allocs = true
						continue // store into an object allocated inside the loop
					}
					if a, ok := base.(*ssa.Alloc); ok {
						// store confined to one local object allocated before the loop
						li.confined = append(li.confined, a)
						fc.sortsOfType(x.Val.Type(), li.confinedSorts)
						allocs = true
						continue
					}
				}
				if root := addrRoot(x.Addr); root != nil && fc.definedOutside(root, li) {
					// store through a pointer/slice value fixed before the loop: confined to its object
					li.confined = append(li.confined, root)
					fc.sortsOfType(x.Val.Type(), li.confinedSorts)
					allocs = true
					continue
				}
				fc.sortsOfType(x.Val.Type(), mod)
			case *ssa.Next:
				if r, ok := x.Iter.(*ssa.Range); ok {
					if g, ok := fc.rangeGhost[r]; ok {
						ghosts[g] = true
					}
				}
			case *ssa.Range:
				if g, ok := fc.rangeGhost[x]; ok {
					ghosts[g] = true
				}
			case *ssa.MapUpdate:
				mod["mdom"] = true
				fc.sortsOfType(x.Value.Type(), mod)
				allocs = true
			case *ssa.Alloc, *ssa.MakeSlice, *ssa.MakeMap, *ssa.MakeClosure, *ssa.MakeChan, *ssa.MakeInterface:
				allocs = true
			case *ssa.Convert:
				allocs = true
			case ssa.CallInstruction:
				eff := fc.callEffects(x.Common())
				if eff.all {
					all = true
				}
				for s := range eff.sorts {
					mod[s] = true
				}
				for g := range eff.ghosts {
					ghosts[g] = true
				}
				if eff.allocs {
					allocs = true
				}
			}
		}
	}
	return
}

func (fc *FnCtx) sortsOfType(t types.Type, out map[Sort]bool) {
	switch u := t.Underlying().(type) {
	case *types.Struct:
		for i := 0; i < u.NumFields(); i++ {
			fc.sortsOfType(u.Field(i).Type(), out)
		}
		return
	case *types.Array:
		fc.sortsOfType(u.Elem(), out)
		return
	case *types.Pointer, *types.Slice, *types.Interface, *types.Map, *types.Chan, *types.Signature:
		out[SInt] = true
		return
	}
	sh := shapeOf(t, fc.mode)
	if sh.K == KLeaf {
		out[sh.Sort] = true
	} else {
		for _, hs := range heapSorts {
			out[hs] = true
		}
	}
}

// readOnlyLocal: a local variable (spilled parameter, local struct, or variable captured by
// closures) that is written exactly once, outside every loop, by a direct store in this
// function, and otherwise only read: through field/index addresses here, and only loaded in
// every closure that captures it. Its address is never passed, stored or sliced. No loop
// iteration, no callee and no closure can change its cells.
func (fc *FnCtx) readOnlyLocal(a *ssa.Alloc) bool {
	if v, ok := fc.roMemo[a]; ok {
		return v
	}
	if fc.roMemo == nil {
		fc.roMemo = map[*ssa.Alloc]bool{}
	}
	stores := 0
	// readsOnly: every use of the address v (in function fn) only reads through it. A variable
	// captured by a closure is followed into the closure body: the closure must only load it
	// (or hand it to a nested closure that only loads it).
	var readsOnly func(v ssa.Value, root bool, depth int) bool
	readsOnly = func(v ssa.Value, root bool, depth int) bool {
		refs := v.Referrers()
		if refs == nil || depth > 3 {
			return false
		}
		for _, r := range *refs {
			switch x := r.(type) {
			case *ssa.UnOp:
				if x.Op != token.MUL {
					return false
				}
			case *ssa.FieldAddr:
				if !readsOnly(x, false, depth) {
					return false
				}
			case *ssa.IndexAddr:
				if x.X != v || !readsOnly(x, false, depth) {
					return false
				}
			case *ssa.DebugRef:
			case *ssa.Store:
				if !root || x.Addr != v || x.Val == v || depth > 0 {
					return false
				}
				stores++
				if fc.inLoop(x.Block()) {
					return false
				}
			case *ssa.MakeClosure:
				cf, ok := x.Fn.(*ssa.Function)
				if !ok {
					return false
				}
				for i, b := range x.Bindings {
					if b == v {
						if i >= len(cf.FreeVars) || !readsOnly(cf.FreeVars[i], true, depth+1) {
							return false
						}
					}
				}
			default:
				return false
			}
		}
		return true
	}
	ok := a.Referrers() != nil && readsOnly(a, true, 0) && stores == 1
	fc.roMemo[a] = ok
	return ok
}

// keepReadOnlyLocals: after a havoc (loop header, unknown call) the cells of every read-only
// local that was initialised before keep their values.
func (fc *FnCtx) keepReadOnlyLocals(pre, post *State, at *ssa.BasicBlock) {
	for _, b := range fc.fn.Blocks {
		for _, ins := range b.Instrs {
			a, ok := ins.(*ssa.Alloc)
			if !ok || !fc.readOnlyLocal(a) {
				continue
			}
			p, known := fc.vals[a]
			if !known || p.K != KPtr {
				continue
			}
			// its single store must dominate the havoc point
			var st *ssa.Store
			for _, r := range *a.Referrers() {
				if s, ok := r.(*ssa.Store); ok {
					st = s
				}
			}
			if st == nil || !(st.Block() == at || st.Block().Dominates(at)) || (st.Block() == at && fc.inLoop(at)) {
				continue
			}
			for _, hs := range heapSorts {
				if pre.heap[hs].S != post.heap[hs].S {
					fc.assume(Eq(Select(post.heap[hs], p.Obj()), Select(pre.heap[hs], p.Obj())))
				}
			}
			// ... and still hold the value of the single store (stated directly, so that the
			// solver need not walk the chain of heap updates back to it)
			if sv, ok := fc.vals[st.Val]; ok {
				et := a.Type().Underlying().(*types.Pointer).Elem()
				cur := fc.load(post, et, p.Obj(), p.Off())
				if eq, ok := sameValue(cur, sv); ok {
					fc.assume(eq)
				}
			}
		}
	}
}

// sameValue: leaf-wise equality of two values of the same shape.
func sameValue(a, b Value) (Term, bool) {
	if a.K != b.K || len(a.E) != len(b.E) {
		return Term{}, false
	}
	if a.K == KLeaf {
		if a.T.Sort != b.T.Sort {
			return Term{}, false
		}
		return Eq(a.T, b.T), true
	}
	if a.K == KOpaque {
		return TTrue, true
	}
	var cs []Term
	for i := range a.E {
		c, ok := sameValue(a.E[i], b.E[i])
		if !ok {
			return Term{}, false
		}
		cs = append(cs, c)
	}
	return And(cs...), true
}

// ---------------------------------------------------------------------
// values

func (fc *FnCtx) val(v ssa.Value) Value {
	if x, ok := fc.vals[v]; ok {
		return x
	}
	switch c := v.(type) {
	case *ssa.Const:
		return fc.constValue(c)
	case *ssa.Global:
		return PtrV(IntLit(fc.eng.globalIDs[c]), IntLit(0))
	case *ssa.Function:
		return Leaf(IntLit(fc.eng.funcID(c)))
	case *ssa.Builtin:
		return Leaf(IntLit(0))
	}
	// not yet defined (e.g. value from an unreachable block): fresh
	sh := shapeOf(v.Type(), fc.mode)
	save := fc.curBlk
	fc.curBlk = -1
	x := fc.freshValue("undef_"+v.Name(), sh)
	fc.curBlk = save
	fc.vals[v] = x
	return x
}

func (fc *FnCtx) constValue(c *ssa.Const) Value {
	t := c.Type()
	if c.Value == nil {
		// zero value / nil
		return fc.zeroValue(t)
	}
	if bits, _, ok := intInfo(t); ok {
		n := constBig(c)
		if intSort(bits, fc.mode) == SInt {
			return Leaf(IntLitBig(n))
		}
		return Leaf(BVLit(n, bits))
	}
	if b, ok := t.Underlying().(*types.Basic); ok {
		switch {
		case b.Info()&types.IsBoolean != 0:
			if constBool(c) {
				return Leaf(TTrue)
			}
			return Leaf(TFalse)
		case b.Info()&types.IsString != 0:
			return Leaf(fc.eng.strLit(constString(c)))
		case b.Info()&types.IsFloat != 0:
			return Leaf(fc.freshConst("fconst", "F64"))
		}
	}
	return fc.freshValue("const", shapeOf(t, fc.mode))
}

// posDesc renders the source expression enclosing pos, for obligation names.
func (fc *FnCtx) posDesc(pos token.Pos, want func(ast.Node) bool) string {
	if !pos.IsValid() {
		return ""
	}
	var file *ast.File
	for _, p := range fc.eng.pkgs {
		for _, f := range p.Syntax {
			if f.Pos() <= pos && pos < f.End() {
				file = f
			}
		}
	}
	if file == nil {
		return ""
	}
	path, _ := astutil.PathEnclosingInterval(file, pos, pos)
	for _, n := range path {
		if want(n) {
			s := fc.eng.srcText(n.Pos(), n.End())
			if len(s) > 80 {
				s = s[:80]
			}
			return s
		}
	}
	return ""
}

func isExprNode(n ast.Node) bool {
	_, ok := n.(ast.Expr)
	return ok
}

func typeStr(t types.Type) string {
	return types.TypeString(t, func(p *types.Package) string { return p.Name() })
}

func (fc *FnCtx) unsupported(what string) {
	fc.subset = append(fc.subset, what)
}

func joinNonEmpty(parts ...string) string {
	var out []string
	for _, p := range parts {
		if p != "" {
			out = append(out, p)
		}
	}
	return strings.Join(out, " ")
}

// nonNilTerm: non-nil-ness of a pointer-like value (zero Term if not pointer-like).
func nonNilTerm(v Value, t types.Type) Term {
	switch t.Underlying().(type) {
	case *types.Pointer:
		if v.K == KPtr {
			return Not(Eq(v.E[0].T, IntLit(0)))
		}
	}
	return Term{}
}

func (c *Contract) isNilable(name string) bool {
	if c == nil {
		return false
	}
	for _, n := range c.Nilable {
		if n == name || n == "*" {
			return true
		}
	}
	return false
}

// addrBase follows FieldAddr/IndexAddr chains to the base pointer value.
func addrBase(v ssa.Value) ssa.Value {
	for i := 0; i < 20; i++ {
		switch x := v.(type) {
		case *ssa.FieldAddr:
			v = x.X
		case *ssa.IndexAddr:
			if _, isPtr := x.X.Type().Underlying().(*types.Pointer); !isPtr {
				return nil // slice element: base object unknown
			}
			v = x.X
		default:
			return v
		}
	}
	return nil
}

// addrRoot follows FieldAddr/IndexAddr chains (through slices too) to the
// pointer or slice value whose object the address lies in.
func addrRoot(v ssa.Value) ssa.Value {
	for i := 0; i < 20; i++ {
		switch x := v.(type) {
		case *ssa.FieldAddr:
			v = x.X
		case *ssa.IndexAddr:
			if _, isSlice := x.X.Type().Underlying().(*types.Slice); isSlice {
				return x.X
			}
			v = x.X
		default:
			return v
		}
	}
	return nil
}

// definedOutside: the value is fixed before the loop starts.
func (fc *FnCtx) definedOutside(v ssa.Value, li *LoopInfo) bool {
	switch x := v.(type) {
	case *ssa.Parameter, *ssa.FreeVar, *ssa.Global:
		return true
	case ssa.Instruction:
		if _, isPhi := v.(*ssa.Phi); isPhi && x.Block() == li.header {
			return false
		}
		return !li.body[x.Block().Index]
	}
	return false
}

// dropLastAssertFact removes the fact that oblige() just recorded for its goal.
func (fc *FnCtx) dropLastAssertFact() {
	if n := len(fc.facts); n > 0 && fc.facts[n-1].isAssert {
		fc.facts = fc.facts[:n-1]
	}
}

// addInsts records the terms at which quantified hypotheses are instantiated for o.
func (fc *FnCtx) addInsts(o *Oblig, env *Env, sks []skolem) {
	if o == nil || len(sks) == 0 {
		return
	}
	for _, sk := range sks {
		o.InstTerms = append(o.InstTerms, sk.t)
		if fc.c == nil {
			continue
		}
		for _, it := range fc.c.Insts {
			n := env.sub()
			n.binds[sk.name] = binding{Leaf(sk.t), specIntType}
			sv, err := fc.specExpr(n, it)
			if err != nil {
				continue // the expression may mention names not visible at this point
			}
			if t, ok := fc.toIntTerm(sv); ok {
				o.InstTerms = append(o.InstTerms, t)
			}
		}
	}
}
