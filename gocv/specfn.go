package main

import (
	"sort"
	"fmt"
	"go/ast"
	"go/token"
	"go/types"
	"strings"

	"golang.org/x/tools/go/ssa"
)

// SpecFnDef is the SMT definition of a pure Go spec function under one mode.
type SpecFnDef struct {
	Name    string // SMT name
	Fn      *ssa.Function
	Mode    Mode
	Params  []Term
	Result  Sort
	Body    string
	SafeBody string // simple scalar helpers: "no run-time panic inside" as a term over the parameters ("" = nothing can panic)
	Rec     bool
	Deps    []string
	Err     string
	HeapTags []Sort   // heaps passed as leading parameters (heap-reading spec functions)
	Shapes   []Shape  // shape of each Go parameter
}

// specHeapSorts: the heaps a heap-reading spec function receives.
var specHeapSorts = []Sort{SBV(8), SBV(16), SInt}

// isSpecFn: a function defined in a verif_contracts file.
func (e *Engine) isSpecFn(fn *ssa.Function) bool {
	if fn == nil || fn.Pkg == nil || !fn.Pos().IsValid() {
		return false
	}
	p := e.fset.Position(fn.Pos())
	return strings.Contains(p.Filename, "verif_contracts")
}

func specFnName(fn *ssa.Function, mode Mode) string {
	return fmt.Sprintf("%s.%s@%s", fn.Pkg.Pkg.Name(), fn.Name(), mode)
}

// specFnCallSSA applies a spec function from SSA code.
func (fc *FnCtx) specFnCallSSA(fn *ssa.Function, args []Value) Value {
	def := fc.eng.specFnDef(fn, fc.mode)
	ts, err := fc.specArgs(def, fc.cur, args)
	if err != nil {
		fc.unbound = append(fc.unbound, "spec function "+fn.Name()+": "+err.Error())
		return fc.freshValue("specres", shapeOf(fn.Signature.Results().At(0).Type(), fc.mode))
	}
	fc.useSpec(def.Name)
	return Leaf(mk(def.Result, smtName(def.Name), ts...))
}

// specArgs builds the SMT argument list: heaps first, then the flattened value arguments.
func (fc *FnCtx) specArgs(def *SpecFnDef, st *State, args []Value) ([]Term, error) {
	var ts []Term
	// a spec function applied to a pointer into a frozen (write-once) global reads the
	// frozen contents, like every other load through such a pointer
	if !fc.initPhase {
		for _, a := range args {
			if a.K == KPtr && fc.eng.frozenIDs[a.Obj().S] {
				st = frozenState
			}
		}
	}
	for _, hs := range def.HeapTags {
		ts = append(ts, st.heap[hs])
	}
	k := len(def.HeapTags)
	for i, a := range args {
		if a.K == KOpaque {
			return nil, fmt.Errorf("opaque argument %d", i)
		}
		for _, l := range a.Leaves() {
			if k >= len(def.Params) {
				return nil, fmt.Errorf("too many argument leaves")
			}
			if l.Sort != def.Params[k].Sort {
				return nil, fmt.Errorf("argument %d has sort %s, want %s", i, l.Sort, def.Params[k].Sort)
			}
			ts = append(ts, l)
			k++
		}
	}
	if k != len(def.Params) {
		return nil, fmt.Errorf("argument shape mismatch")
	}
	return ts, nil
}

func (fc *FnCtx) useSpec(name string) {
	if fc.usedSpecs == nil {
		fc.usedSpecs = map[string]bool{}
	}
	fc.usedSpecs[name] = true
}

// applySpecFn applies a spec function from a spec expression.
func (e *Env) applySpecFn(fobj *types.Func, argExprs []ast.Expr) sval {
	fc := e.fc
	sp := fc.eng.spkgs[fobj.Pkg().Path()]
	if sp == nil {
		specPanic("no package for %s", fobj.Name())
	}
	fn := sp.Func(fobj.Name())
	if fn == nil || !fc.eng.isSpecFn(fn) {
		specPanic("%s is not a spec function (only functions in verif_contracts files may be called in contracts)", fobj.Name())
	}
	def := fc.eng.specFnDef(fn, fc.mode)
	if def.Err != "" {
		specPanic("spec function %s: %s", fn.Name(), def.Err)
	}
	sig := fn.Signature
	if len(argExprs) != sig.Params().Len() {
		specPanic("spec function %s: wrong number of arguments", fn.Name())
	}
	var vals []Value
	for i, ae := range argExprs {
		a := e.coerce(e.eval(ae), sig.Params().At(i).Type())
		v := a.v
		if v.K == KLeaf && i < len(def.Shapes) && def.Shapes[i].K == KLeaf {
			want := def.Shapes[i].Sort
			t := v.T
			if t.Sort != want {
				switch {
				case t.Sort == SInt && want.IsBV():
					t = int2bv(t, want.BVWidth())
				case t.Sort.IsBV() && want == SInt:
					t = fc.toIndex(t, a.t)
				case t.Sort.IsBV() && want.IsBV() && a.t != nil:
					t = fc.convertIntSorts(t, a.t, want.BVWidth())
				default:
					specPanic("spec function %s: argument %d has sort %s, want %s", fn.Name(), i, t.Sort, want)
				}
			}
			v = Leaf(t)
		}
		vals = append(vals, v)
	}
	ts, aerr := fc.specArgs(def, e.st, vals)
	if aerr != nil {
		specPanic("spec function %s: %v", fn.Name(), aerr)
	}
	fc.useSpec(def.Name)
	if fc.collectApps && def.Rec {
		bound := false
		for _, t := range ts {
			if strings.Contains(t.S, "!q") {
				bound = true // argument mentions a quantified variable: no ground unfolding
			}
		}
		if !bound {
			fc.apps = append(fc.apps, specApp{def, ts})
		}
	}
	return sval{v: Leaf(mk(def.Result, smtName(def.Name), ts...)), t: sig.Results().At(0).Type()}
}

func (fc *FnCtx) convertIntSorts(t Term, from types.Type, w int) Term {
	fw := t.Sort.BVWidth()
	_, signed, _ := intInfo(from)
	switch {
	case fw == w:
		return t
	case fw > w:
		return extract(t, w-1, 0)
	case signed:
		return sext(t, w)
	}
	return zext(t, w)
}

// specFnDef translates (once) the SSA of a spec function into an SMT definition.
func (e *Engine) specFnDef(fn *ssa.Function, mode Mode) *SpecFnDef {
	name := specFnName(fn, mode)
	if d, ok := e.specDefs[name]; ok {
		return d
	}
	def := &SpecFnDef{Name: name, Fn: fn, Mode: mode}
	e.specDefs[name] = def // pre-register for recursion
	sig := fn.Signature
	if sig.Results().Len() != 1 {
		def.Err = "spec functions must have exactly one result"
		return def
	}
	rs := shapeOf(sig.Results().At(0).Type(), mode)
	if rs.K != KLeaf {
		def.Err = "spec function result must be a scalar"
		return def
	}
	def.Result = rs.Sort
	heapReading := false
	for _, p := range fn.Params {
		if shapeOf(p.Type(), mode).K != KLeaf {
			heapReading = true
		}
	}
	if heapReading {
		def.HeapTags = specHeapSorts
		for _, hs := range specHeapSorts {
			def.Params = append(def.Params, Term{"Hspec_" + sortTag(hs), heapSort(hs)})
		}
	}
	for _, p := range fn.Params {
		ps := shapeOf(p.Type(), mode)
		if ps.K == KOpaque {
			def.Err = "spec function parameter of unsupported type"
			return def
		}
		def.Shapes = append(def.Shapes, ps)
	}
	fc := e.newFnCtx(fn)
	fc.mode = mode
	fc.pureMode = true
	body, err := fc.pureBody(def)
	if err != nil {
		def.Err = err.Error()
		return def
	}
	def.Body = body
	for d := range fc.usedSpecs {
		if d == name {
			def.Rec = true
		} else {
			def.Deps = append(def.Deps, d)
		}
	}
	e.specOrder = append(e.specOrder, name)
	return def
}

// pureBody computes the result term of a loop-free, effect-free function.
func (fc *FnCtx) pureBody(def *SpecFnDef) (string, error) {
	fn := fc.fn
	fc.analyze()
	if len(fc.loops) > 0 {
		return "", fmt.Errorf("spec functions must be loop-free (use recursion)")
	}
	fc.curBlk = -1
	st := &State{heap: map[Sort]Term{}, ghost: map[string]Term{}}
	for _, hs := range heapSorts {
		st.heap[hs] = Term{"Hspec_" + sortTag(hs), heapSort(hs)}
	}
	st.next = Term{"nextspec", SInt}
	st.mdom = Term{"mdomspec", SArr(SInt, SArr(SInt, SBool))}
	st.mlen = Term{"mlenspec", SArr(SInt, SInt)}
	fc.entry = st.clone()
	fc.cur = st
	for i, p := range fn.Params {
		n := 0
		v := namedValue("a_"+p.Name(), def.Shapes[i], &n, &def.Params)
		fc.vals[p] = v
		fc.params[p.Name()] = v
		fc.paramT[p.Name()] = p.Type()
	}
	fc.curBlk = 0
	for _, b := range fc.order {
		fc.block(b)
	}
	if len(fc.subset) > 0 {
		return "", fmt.Errorf("unsupported construct in spec function: %s", strings.Join(fc.subset, ", "))
	}
	// result: ite over return blocks
	var res Term
	first := true
	for i := len(fc.order) - 1; i >= 0; i-- {
		b := fc.order[i]
		if _, reached := fc.reach[b.Index]; !reached {
			continue
		}
		if len(b.Instrs) == 0 {
			continue
		}
		r, ok := b.Instrs[len(b.Instrs)-1].(*ssa.Return)
		if !ok {
			continue
		}
		v := fc.val(r.Results[0])
		if v.K != KLeaf {
			return "", fmt.Errorf("non-scalar result")
		}
		if first {
			res = v.T
			first = false
		} else {
			res = Ite(fc.reach[b.Index], v.T, res)
		}
	}
	if first {
		return "", fmt.Errorf("no return")
	}
	// wrap lets
	var sb strings.Builder
	n := 0
	for _, d := range fc.decls {
		if strings.HasPrefix(d.text, "(declare-const ") {
			return "", fmt.Errorf("spec function needs a havoc value (%s); not pure", d.text)
		}
		// (define-fun name () Sort term)
		rest := strings.TrimPrefix(d.text, "(define-fun ")
		sp := strings.Index(rest, " () ")
		nm := rest[:sp]
		rest = rest[sp+4:]
		// sort is a balanced s-expr or atom
		se := sexprEnd(rest)
		term := strings.TrimSpace(rest[se:])
		term = term[:len(term)-1]
		fmt.Fprintf(&sb, "(let ((%s %s)) ", nm, term)
		n++
	}
	if len(fc.pureSafety) > 0 {
		def.SafeBody = sb.String() + And(fc.pureSafety...).S + strings.Repeat(")", n)
	}
	sb.WriteString(res.S)
	sb.WriteString(strings.Repeat(")", n))
	return sb.String(), nil
}

// helperSafety: a helper translated as a term (simpleScalarFn) is not verified on its own; what
// could panic inside it (division by zero, ...) is an obligation here, in the caller's context.
func (fc *FnCtx) helperSafety(callee *ssa.Function, args []Value, pos token.Pos) {
	def := fc.eng.specFnDef(callee, fc.mode)
	if def.Err != "" || def.SafeBody == "" || def.Rec {
		return
	}
	ts, err := fc.specArgs(def, fc.cur, args)
	if err != nil {
		return
	}
	fc.useSpec(def.Name)
	fc.oblige("div0", "inside "+relName(callee)+": no division by zero or other run-time panic for these arguments", pos, mk(SBool, smtName(def.Name+"!safe"), ts...))
}

// sexprEnd returns the index just after the first s-expression in s.
func sexprEnd(s string) int {
	i := 0
	for i < len(s) && s[i] == ' ' {
		i++
	}
	if i < len(s) && s[i] == '(' {
		depth := 0
		for ; i < len(s); i++ {
			switch s[i] {
			case '(':
				depth++
			case ')':
				depth--
				if depth == 0 {
					return i + 1
				}
			}
		}
		return len(s)
	}
	for i < len(s) && s[i] != ' ' {
		i++
	}
	return i
}

// specDefsText emits the definitions needed (transitively) by the used set, in order.
func (e *Engine) specDefsText(used map[string]bool, opaque map[string]bool) string {
	// deterministic order (dependencies first, ties by name), independent of the order in which
	// the engine happened to translate the spec functions
	need := map[string]bool{}
	var order []string
	var visit func(n string)
	visit = func(n string) {
		if need[n] {
			return
		}
		need[n] = true
		if d, ok := e.specDefs[n]; ok {
			deps := append([]string{}, d.Deps...)
			sort.Strings(deps)
			for _, dep := range deps {
				visit(dep)
			}
			order = append(order, n)
		}
	}
	var roots []string
	for n := range used {
		roots = append(roots, n)
	}
	sort.Strings(roots)
	for _, n := range roots {
		visit(n)
	}
	var sb strings.Builder
	for _, n := range order {
		d := e.specDefs[n]
		var ps []string
		var sorts []string
		for _, p := range d.Params {
			ps = append(ps, fmt.Sprintf("(%s %s)", p.S, p.Sort))
			sorts = append(sorts, string(p.Sort))
		}
		if (opaque[n] && d.Rec) || opaque["!"+n] {
			fmt.Fprintf(&sb, "(declare-fun %s (%s) %s)\n", smtName(n), strings.Join(sorts, " "), d.Result)
			continue
		}
		kw := "define-fun"
		if d.Rec {
			kw = "define-fun-rec"
		}
		fmt.Fprintf(&sb, "(%s %s (%s) %s %s)\n", kw, smtName(n), strings.Join(ps, " "), d.Result, d.Body)
		if d.SafeBody != "" && !d.Rec {
			fmt.Fprintf(&sb, "(define-fun %s (%s) Bool %s)\n", smtName(n+"!safe"), strings.Join(ps, " "), d.SafeBody)
		}
	}
	return sb.String()
}

// unfolding returns the one-level definitional equation of a recorded application.
func (a specApp) unfolding() Term {
	var lets []string
	var args []string
	for i, p := range a.def.Params {
		lets = append(lets, fmt.Sprintf("(%s %s)", p.S, a.args[i].S))
		args = append(args, a.args[i].S)
	}
	app := fmt.Sprintf("(%s %s)", smtName(a.def.Name), strings.Join(args, " "))
	return Term{fmt.Sprintf("(= %s (let (%s) %s))", app, strings.Join(lets, " "), a.def.Body), SBool}
}

// namedValue builds a parameter value whose leaves are fresh SMT parameter names.
func namedValue(base string, sh Shape, n *int, params *[]Term) Value {
	if sh.K == KLeaf {
		t := Term{smtName(fmt.Sprintf("%s_%d", base, *n)), sh.Sort}
		*n++
		*params = append(*params, t)
		return Leaf(t)
	}
	v := Value{K: sh.K}
	for _, e := range sh.E {
		v.E = append(v.E, namedValue(base, e, n, params))
	}
	return v
}
