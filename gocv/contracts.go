package main

import (
	"fmt"
	"go/ast"
	"go/token"
	"strconv"
	"strings"
)

// SpecClause is one contract expression with the source line it came from.
type SpecClause struct {
	Text string
	Pos  string
	// Props, if set (clause written `@C03 expr`), restricts the clause to checks of those
	// properties. GoalOnly clauses (`check-ensures`) are proved at the function's returns but
	// never assumed at its call sites.
	Props    []string
	GoalOnly bool
	// Strict (`requires @strict expr`): the precondition is proved at every call site even in
	// callers whose own contract is effects-only (skip-safety); other arguments rely on it.
	Strict bool
}

type LoopContract struct {
	UsesStep   []string
	Uses       []string
	Invariants []SpecClause
	Decreases  *SpecClause
	Modifies   []string
	HasMod     bool
}

// CallAssert is an assertion checked at the call sites of a named callee.
type CallAssert struct {
	Hits   int
	Callee string // substring matched against the callee's name
	Ord    int    // -1 = every matching site
	Clause SpecClause
}

// GhostUpdate: at call sites of Callee, ghost variable Var is set to Expr
// (evaluated with `result`, `arg0..`, bound).
type GhostUpdate struct {
	Callee string
	Var    string
	Expr   string
	Pos    string
}

type Contract struct {
	Pkg      string // package path
	Func     string // package-relative function name
	Pos      string
	Props    []string
	Mode     Mode
	ModeSet  bool
	Requires []SpecClause
	Ensures  []SpecClause
	Panics   *SpecClause // exact condition under which a panic is permitted
	Modifies []string
	HasMod   bool
	Loops    map[int]*LoopContract
	Assumed  bool // assumed contract: body not verified (external / trusted)
	Pure     bool // no heap effect, result is a function of args+heap
	Opaque   bool // do not expose body even if spec function
	NoInline bool
	CallAsserts []CallAssert
	GhostUpd    []GhostUpdate
	Terminates  bool
	Notes       []string
	// Closure contracts: parameters of the form `apply fn(i, j) == expr` give
	// meaning to function-typed parameters; see spec.go.
	ReplayReq []string // extra input restrictions for the replay sweep (evaluation cost)
	MaxAlloc     string // bound (in bytes, an expression over the parameters at entry) on every make([]T, n) of the function
	SeqExt       bool   // add extensionality of byte sequences (equal cells => equal bytes(...)) to the function's queries
	InstCounters bool   // instantiate quantified hypotheses at the counters of enclosing loops (and at 0)
	LogicalDef   bool              // `logical-definitional`: the requires clauses mentioning the logical variables only define them (witnesses always exist)
	LogicalTypes map[string]string // optional Go type expression of a logical variable (default int)
	Logical    []string // logical (ghost, universally quantified) integer variables
	Footprint  []string // worker closure: [lo, hi) interval of work items it owns exclusively
	ForkJoin   []string // spawner: lo, hi of the worker indices, total number of work items, witness(x)
	Insts      []string // extra instantiation terms for quantified hypotheses, over the goal's bound variable
	OpaqueFns  []string // spec functions kept uninterpreted in this function's VCs
	SkipSafety bool    // run-time-panic obligations are assumed, not proved (effects-only contract)
	Nilable   []string // parameters that may be nil (default: pointer-like parameters are required non-nil)
	Preserves []string // pointer expressions whose pointee cells are unchanged by the function
	Uses  []string // lemma instances / axioms available in this function
	Globals   []string // global invariants (preds) this function relies on
	InitPhase bool     // runs during package initialisation: frozen globals are ordinary memory
	Fresh []string // results that are freshly allocated
	Bound bool     // set when a function was found for it
}

type Lemma struct {
	Pkg      string
	Name     string
	Pos      string
	Props    []string
	Mode     Mode
	Vars     []LemmaVar
	Requires []SpecClause
	Ensures  []SpecClause
	Induct   [][]string // each: substitution list "x := e"
	Uses     []string   // "lemma(args...)" instances of other lemmas
	Unfold   []string   // spec function applications to unfold explicitly
	Opaque   bool       // recursive spec functions uninterpreted + explicit one-level unfoldings
	Ranges   map[string][2]string
	Kind     string     // smt | exhaust | eval
	Tier     string     // "" or "thorough"
}

type LemmaVar struct {
	Name string
	Type string
}

// GhostDecl declares a ghost global.
type GhostDecl struct {
	Name string
	Type string // int | bool | str
	Init string
}

// IfaceContract: assumed contract for an interface method.
type PredDecl struct {
	Pkg, Name, Body, Pos string
	Params []string
}

type ContractSet struct {
	IfacePure map[string]bool    // pkgpath::Iface -> all methods are assumed pure (delegates)
	Preds   map[string]*PredDecl // key pkgpath::name
	Frozen  map[string]bool      // key pkgpath::global
	Funcs   map[string]*Contract // key pkgpath + "." + relname
	Lemmas  []*Lemma
	Ghosts  []GhostDecl
	Order   []string
	Errors  []string
}

func contractKey(pkg, fn string) string { return pkg + "::" + fn }

// parseContracts scans the comments of a file for //@ blocks.
func (cs *ContractSet) parseFile(fset *token.FileSet, pkgPath string, f *ast.File) {
	var lines []struct {
		text string
		pos  string
	}
	for _, cg := range f.Comments {
		for _, c := range cg.List {
			t := c.Text
			if strings.HasPrefix(t, "//@") {
				p := fset.Position(c.Pos())
				lines = append(lines, struct {
					text string
					pos  string
				}{strings.TrimRight(t[3:], " \t"), fmt.Sprintf("%s:%d", shortPath(p.Filename), p.Line)})
			}
		}
	}
	var cur *Contract
	var curLoop *LoopContract
	var curLemma *Lemma
	var lastPred *PredDecl
	for _, ln := range lines {
		body := strings.TrimSpace(ln.text)
		if body == "" {
			continue
		}
		// continuation lines start with "|"
		word, rest := splitWord(body)
		switch word {
		case "func":
			lastPred = nil
			cur = &Contract{Pkg: pkgPath, Func: rest, Pos: ln.pos, Loops: map[int]*LoopContract{}}
			curLoop = nil
			curLemma = nil
			k := contractKey(pkgPath, rest)
			if _, dup := cs.Funcs[k]; dup {
				cs.Errors = append(cs.Errors, fmt.Sprintf("%s: duplicate contract for %s", ln.pos, rest))
			}
			cs.Funcs[k] = cur
			cs.Order = append(cs.Order, k)
			continue
		case "lemma":
			lastPred = nil
			curLemma = &Lemma{Pkg: pkgPath, Name: rest, Pos: ln.pos, Mode: ModeBV, Kind: "smt"}
			cs.Lemmas = append(cs.Lemmas, curLemma)
			cur = nil
			curLoop = nil
			continue
		case "iface-pure":
			for _, g := range strings.Fields(rest) {
				cs.IfacePure[contractKey(pkgPath, g)] = true
			}
			continue
		case "frozen":
			for _, g := range strings.Fields(rest) {
				cs.Frozen[contractKey(pkgPath, g)] = true
			}
			continue
		case "pred":
			parts := strings.SplitN(rest, "=", 2)
			if len(parts) != 2 {
				cs.Errors = append(cs.Errors, ln.pos+": bad pred")
				continue
			}
			name := strings.TrimSpace(parts[0])
			var params []string
			if i := strings.Index(name, "("); i >= 0 {
				for _, pn := range strings.Split(strings.TrimSuffix(name[i+1:], ")"), ",") {
					if pn = strings.TrimSpace(pn); pn != "" {
						params = append(params, pn)
					}
				}
				name = name[:i]
			}
			cs.Preds[contractKey(pkgPath, name)] = &PredDecl{Pkg: pkgPath, Name: name, Body: strings.TrimSpace(parts[1]), Pos: ln.pos, Params: params}
			cur, curLoop, curLemma = nil, nil, nil
			lastPred = cs.Preds[contractKey(pkgPath, name)]
			continue
		case "ghost":
			// ghost <name> <type> = <init>
			parts := strings.SplitN(rest, "=", 2)
			nt := strings.Fields(parts[0])
			if len(nt) != 2 || len(parts) != 2 {
				cs.Errors = append(cs.Errors, ln.pos+": bad ghost declaration")
				continue
			}
			cs.Ghosts = append(cs.Ghosts, GhostDecl{nt[0], nt[1], strings.TrimSpace(parts[1])})
			continue
		}
		cl := SpecClause{Text: rest, Pos: ln.pos}
		if word == "|" && cur == nil && curLemma == nil && lastPred != nil {
			lastPred.Body += " " + rest
			continue
		}
		if curLemma != nil {
			switch word {
			case "props":
				curLemma.Props = strings.Fields(rest)
			case "mode":
				if rest == "int" {
					curLemma.Mode = ModeInt
				} else {
					curLemma.Mode = ModeBV
				}
			case "forall":
				// forall x T, y U
				for _, d := range strings.Split(rest, ",") {
					nt := strings.Fields(d)
					if len(nt) == 2 {
						curLemma.Vars = append(curLemma.Vars, LemmaVar{nt[0], nt[1]})
					} else {
						cs.Errors = append(cs.Errors, ln.pos+": bad forall")
					}
				}
			case "requires":
				curLemma.Requires = append(curLemma.Requires, cl)
			case "ensures":
				curLemma.Ensures = append(curLemma.Ensures, cl)
			case "induct":
				curLemma.Induct = append(curLemma.Induct, splitTop(rest, ';'))
			case "use":
				curLemma.Uses = append(curLemma.Uses, rest)
			case "unfold":
				curLemma.Unfold = append(curLemma.Unfold, rest)
			case "opaque":
				curLemma.Opaque = true
			case "range":
				f := strings.Fields(rest)
				if len(f) != 3 {
					cs.Errors = append(cs.Errors, ln.pos+": range <var> <lo> <hi>")
				} else {
					if curLemma.Ranges == nil {
						curLemma.Ranges = map[string][2]string{}
					}
					curLemma.Ranges[f[0]] = [2]string{f[1], f[2]}
				}
			case "kind":
				curLemma.Kind = rest
			case "tier":
				curLemma.Tier = rest
			case "|":
				// continuation of last ensures/requires
				if n := len(curLemma.Ensures); n > 0 {
					curLemma.Ensures[n-1].Text += " " + rest
				}
			default:
				cs.Errors = append(cs.Errors, fmt.Sprintf("%s: unknown lemma clause %q", ln.pos, word))
			}
			continue
		}
		if cur == nil {
			cs.Errors = append(cs.Errors, fmt.Sprintf("%s: clause outside of func/lemma: %s", ln.pos, body))
			continue
		}
		switch word {
		case "props":
			cur.Props = strings.Fields(rest)
		case "mode":
			cur.ModeSet = true
			if rest == "bv" {
				cur.Mode = ModeBV
			} else {
				cur.Mode = ModeInt
			}
		case "requires":
			if strings.HasPrefix(cl.Text, "@strict ") {
				cl.Strict = true
				cl.Text = strings.TrimSpace(strings.TrimPrefix(cl.Text, "@strict "))
			}
			cur.Requires = append(cur.Requires, cl)
		case "ensures", "check-ensures":
			if strings.HasPrefix(cl.Text, "@") {
				f := strings.SplitN(cl.Text, " ", 2)
				if len(f) == 2 {
					cl.Props = strings.Split(strings.TrimPrefix(f[0], "@"), ",")
					cl.Text = strings.TrimSpace(f[1])
				}
			}
			cl.GoalOnly = word == "check-ensures"
			cur.Ensures = append(cur.Ensures, cl)
		case "panics":
			c := cl
			cur.Panics = &c
		case "modifies":
			if curLoop != nil {
				curLoop.HasMod = true
				if rest != "nothing" {
					curLoop.Modifies = append(curLoop.Modifies, splitTop(rest, ';')...)
				}
			} else {
				cur.HasMod = true
				if rest != "nothing" {
					cur.Modifies = append(cur.Modifies, splitTop(rest, ';')...)
				}
			}
		case "loop":
			n, err := strconv.Atoi(rest)
			if err != nil {
				cs.Errors = append(cs.Errors, ln.pos+": bad loop ordinal")
				continue
			}
			curLoop = &LoopContract{}
			cur.Loops[n] = curLoop
		case "invariant":
			if curLoop == nil {
				cs.Errors = append(cs.Errors, ln.pos+": invariant outside loop")
				continue
			}
			if strings.HasPrefix(cl.Text, "@") {
				if f := strings.SplitN(cl.Text, " ", 2); len(f) == 2 {
					cl.Props = strings.Split(strings.TrimPrefix(f[0], "@"), ",")
					cl.Text = strings.TrimSpace(f[1])
				}
			}
			curLoop.Invariants = append(curLoop.Invariants, cl)
		case "decreases":
			if curLoop == nil {
				cs.Errors = append(cs.Errors, ln.pos+": decreases outside loop")
				continue
			}
			c := cl
			curLoop.Decreases = &c
		case "use", "uses":
			if curLoop != nil {
				curLoop.Uses = append(curLoop.Uses, rest)
			} else {
				cur.Uses = append(cur.Uses, rest)
			}
		case "use-step":
			if curLoop != nil {
				curLoop.UsesStep = append(curLoop.UsesStep, rest)
			} else {
				cs.Errors = append(cs.Errors, ln.pos+": use-step outside loop")
			}
		case "inst-counters":
			cur.InstCounters = true
		case "seq-ext":
			cur.SeqExt = true
		case "max-alloc":
			cur.MaxAlloc = rest
		case "logical-definitional":
			cur.LogicalDef = true
		case "logical":
			// `logical n m` (integers) or `logical f : func(int, int) T` (a typed logical variable)
			if i := strings.Index(rest, ":"); i >= 0 {
				name := strings.TrimSpace(rest[:i])
				cur.Logical = append(cur.Logical, name)
				if cur.LogicalTypes == nil {
					cur.LogicalTypes = map[string]string{}
				}
				cur.LogicalTypes[name] = strings.TrimSpace(rest[i+1:])
			} else {
				cur.Logical = append(cur.Logical, strings.Fields(rest)...)
			}
		case "footprint":
			cur.Footprint = splitTop(rest, ';')
		case "forkjoin":
			cur.ForkJoin = splitTop(rest, ';')
		case "inst":
			cur.Insts = append(cur.Insts, rest)
		case "opaque-fn":
			cur.OpaqueFns = append(cur.OpaqueFns, strings.Fields(rest)...)
		case "skip-safety":
			cur.SkipSafety = true
		case "ghost-set":
			// ghost-set <var> = <expr>   (callee-side: applied at every call site)
			parts := strings.SplitN(rest, "=", 2)
			if len(parts) != 2 {
				cs.Errors = append(cs.Errors, ln.pos+": bad ghost-set")
				continue
			}
			cur.GhostUpd = append(cur.GhostUpd, GhostUpdate{Var: strings.TrimSpace(parts[0]), Expr: strings.TrimSpace(parts[1]), Pos: ln.pos})
		case "nilable":
			cur.Nilable = append(cur.Nilable, strings.Fields(rest)...)
		case "preserves":
			cur.Preserves = append(cur.Preserves, splitTop(rest, ';')...)
		case "replay-requires":
			cur.ReplayReq = append(cur.ReplayReq, rest)
		case "global":
			cur.Globals = append(cur.Globals, strings.Fields(rest)...)
		case "init-phase":
			cur.InitPhase = true
		case "assume-contract":
			cur.Assumed = true
			if rest != "" {
				cur.Notes = append(cur.Notes, rest)
			}
		case "pure":
			cur.Pure = true
		case "opaque":
			cur.Opaque = true
		case "fresh":
			cur.Fresh = append(cur.Fresh, strings.Fields(rest)...)
		case "terminates":
			cur.Terminates = true
		case "note":
			cur.Notes = append(cur.Notes, rest)
		case "assert-call":
			// assert-call <callee-substring> [#n] : expr
			parts := strings.SplitN(rest, ":", 2)
			if len(parts) != 2 {
				cs.Errors = append(cs.Errors, ln.pos+": bad assert-call")
				continue
			}
			hd := strings.Fields(parts[0])
			ca := CallAssert{Callee: hd[0], Ord: -1, Clause: SpecClause{Text: strings.TrimSpace(parts[1]), Pos: ln.pos}}
			if len(hd) > 1 && strings.HasPrefix(hd[1], "#") {
				ca.Ord, _ = strconv.Atoi(hd[1][1:])
			}
			cur.CallAsserts = append(cur.CallAsserts, ca)
		case "|":
			// continuation of the previous clause
			switch {
			case curLoop != nil && len(curLoop.Invariants) > 0:
				curLoop.Invariants[len(curLoop.Invariants)-1].Text += " " + rest
			case len(cur.Ensures) > 0:
				cur.Ensures[len(cur.Ensures)-1].Text += " " + rest
			case len(cur.Requires) > 0:
				cur.Requires[len(cur.Requires)-1].Text += " " + rest
			}
		default:
			cs.Errors = append(cs.Errors, fmt.Sprintf("%s: unknown clause %q", ln.pos, word))
		}
	}
}

func splitWord(s string) (string, string) {
	i := strings.IndexAny(s, " \t")
	if i < 0 {
		return s, ""
	}
	return s[:i], strings.TrimSpace(s[i+1:])
}

// splitTop splits on sep at paren depth 0.
func splitTop(s string, sep byte) []string {
	var out []string
	depth := 0
	start := 0
	for i := 0; i < len(s); i++ {
		switch s[i] {
		case '(', '[', '{':
			depth++
		case ')', ']', '}':
			depth--
		default:
			if s[i] == sep && depth == 0 {
				out = append(out, strings.TrimSpace(s[start:i]))
				start = i + 1
			}
		}
	}
	if t := strings.TrimSpace(s[start:]); t != "" {
		out = append(out, t)
	}
	return out
}

func shortPath(p string) string {
	if i := strings.Index(p, "/repo/"); i >= 0 {
		return p[i+6:]
	}
	return p
}
