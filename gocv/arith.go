package main

import (
	"fmt"
	"go/constant"
	"go/token"
	"go/types"
	"math/big"

	"golang.org/x/tools/go/ssa"
)

type bigInt = big.Int

var bigOne = big.NewInt(1)

func constBig(c *ssa.Const) *big.Int {
	v := constant.ToInt(c.Value)
	if v.Kind() != constant.Int {
		return big.NewInt(0)
	}
	if i, ok := constant.Int64Val(v); ok {
		return big.NewInt(i)
	}
	n, _ := new(big.Int).SetString(v.ExactString(), 10)
	if n == nil {
		return big.NewInt(0)
	}
	return n
}

func constBool(c *ssa.Const) bool     { return constant.BoolVal(c.Value) }
func constString(c *ssa.Const) string { return constant.StringVal(c.Value) }

// wrapInt reduces a mathematical integer term into the range of the type.
func wrapInt(t Term, bits int, signed bool) Term {
	m := IntLitBig(pow2(bits))
	if signed {
		half := IntLitBig(pow2(bits - 1))
		// ((t + half) mod m) - half
		return Sub(mk(SInt, "mod", Add(t, half), m), half)
	}
	return mk(SInt, "mod", t, m)
}

// wrapAddSub: result of + or - lies within one period of the range.
func wrapOnce(t Term, bits int, signed bool) Term {
	lo, hi := intRange(bits, signed)
	m := IntLitBig(pow2(bits))
	return Ite(Gt(t, hi), Sub(t, m), Ite(Lt(t, lo), Add(t, m), t))
}

func wrapMul(t Term, bits int, signed bool) Term {
	lo, hi := intRange(bits, signed)
	return Ite(And(Le(lo, t), Le(t, hi)), t, wrapInt(t, bits, signed))
}

const maxSliceCapInt = int64(70368744177664)

// ---- interval tracker --------------------------------------------------------------------
// Terms whose value is confined by facts the query asserts anyway (slice lengths and
// capacities, constants, and arithmetic over them) get an interval. An addition, subtraction
// or multiplication whose exact result provably fits the machine type is emitted without the
// wrap-around case split; everything else keeps the exact wrap-around semantics.

func (fc *FnCtx) noteRange(t Term, lo, hi *big.Int) {
	if t.Sort != SInt {
		return
	}
	if fc.rng == nil {
		fc.rng = map[string][2]*big.Int{}
	}
	if old, ok := fc.rng[t.S]; ok {
		if old[0].Cmp(lo) > 0 {
			lo = old[0]
		}
		if old[1].Cmp(hi) < 0 {
			hi = old[1]
		}
	}
	fc.rng[t.S] = [2]*big.Int{lo, hi}
}

func (fc *FnCtx) rangeOf(t Term) (lo, hi *big.Int, ok bool) {
	if t.Sort != SInt {
		return nil, nil, false
	}
	if n, isNum := new(big.Int).SetString(t.S, 10); isNum {
		return n, n, true
	}
	if len(t.S) > 4 && t.S[:3] == "(- " && t.S[len(t.S)-1] == ')' {
		if n, isNum := new(big.Int).SetString(t.S[3:len(t.S)-1], 10); isNum {
			n.Neg(n)
			return n, n, true
		}
	}
	if r, found := fc.rng[t.S]; found {
		return r[0], r[1], true
	}
	return nil, nil, false
}

// arith builds x op y for a machine integer type, without the wrap-around split when the
// intervals of the operands prove that the exact result fits.
func (fc *FnCtx) arith(op token.Token, x, y Term, bits int, signed bool) Term {
	var exact Term
	switch op {
	case token.ADD:
		exact = Add(x, y)
	case token.SUB:
		exact = Sub(x, y)
	default:
		exact = Mul(x, y)
	}
	xl, xh, okx := fc.rangeOf(x)
	yl, yh, oky := fc.rangeOf(y)
	if okx && oky {
		var lo, hi *big.Int
		switch op {
		case token.ADD:
			lo, hi = new(big.Int).Add(xl, yl), new(big.Int).Add(xh, yh)
		case token.SUB:
			lo, hi = new(big.Int).Sub(xl, yh), new(big.Int).Sub(xh, yl)
		default:
			cands := []*big.Int{new(big.Int).Mul(xl, yl), new(big.Int).Mul(xl, yh), new(big.Int).Mul(xh, yl), new(big.Int).Mul(xh, yh)}
			lo, hi = cands[0], cands[0]
			for _, c := range cands[1:] {
				if c.Cmp(lo) < 0 {
					lo = c
				}
				if c.Cmp(hi) > 0 {
					hi = c
				}
			}
		}
		tlo, thi := intRangeBig(bits, signed)
		if lo.Cmp(tlo) >= 0 && hi.Cmp(thi) <= 0 {
			fc.noteRange(exact, lo, hi)
			return exact
		}
	}
	if op == token.MUL {
		return wrapMul(exact, bits, signed)
	}
	return wrapOnce(exact, bits, signed)
}

func intRangeBig(bits int, signed bool) (*big.Int, *big.Int) {
	if signed {
		h := pow2(bits - 1)
		return new(big.Int).Neg(h), new(big.Int).Sub(h, bigOne)
	}
	return big.NewInt(0), new(big.Int).Sub(pow2(bits), bigOne)
}

// noteDivRem records the interval of x/c and x%c for a positive constant c.
func (fc *FnCtx) noteDivRem(res Term, isRem bool, x Term, c int64) {
	xl, xh, ok := fc.rangeOf(x)
	cb := big.NewInt(c)
	if isRem {
		m := big.NewInt(c - 1)
		if ok && xl.Sign() >= 0 {
			fc.noteRange(res, big.NewInt(0), m)
		} else {
			fc.noteRange(res, new(big.Int).Neg(m), m)
		}
		return
	}
	if ok {
		fc.noteRange(res, new(big.Int).Quo(xl, cb), new(big.Int).Quo(xh, cb))
	}
}

// tdiv / trem: Go's truncated division on Ints.
func tdiv(a, b Term) Term { return mk(SInt, "tdiv", a, b) }
func trem(a, b Term) Term { return mk(SInt, "trem", a, b) }

// int <-> bv bridges
func int2bv(t Term, w int) Term {
	return Term{fmt.Sprintf("((_ int2bv %d) %s)", w, t.S), SBV(w)}
}
func ubv2int(t Term) Term { return mk(SInt, "bv2nat", t) }
func sbv2int(t Term) Term {
	w := t.Sort.BVWidth()
	u := ubv2int(t)
	return Ite(Term{fmt.Sprintf("(bvslt %s (_ bv0 %d))", t.S, w), SBool}, Sub(u, IntLitBig(pow2(w))), u)
}

func bvop(op string, a, b Term) Term { return mk(a.Sort, op, a, b) }
func bvcmp(op string, a, b Term) Term { return mk(SBool, op, a, b) }

func zext(t Term, to int) Term {
	w := t.Sort.BVWidth()
	if w == to {
		return t
	}
	return Term{fmt.Sprintf("((_ zero_extend %d) %s)", to-w, t.S), SBV(to)}
}
func sext(t Term, to int) Term {
	w := t.Sort.BVWidth()
	if w == to {
		return t
	}
	return Term{fmt.Sprintf("((_ sign_extend %d) %s)", to-w, t.S), SBV(to)}
}
func extract(t Term, hi, lo int) Term {
	return Term{fmt.Sprintf("((_ extract %d %d) %s)", hi, lo, t.S), SBV(hi - lo + 1)}
}

// convertInt converts an integer value between Go integer types.
func (fc *FnCtx) convertInt(v Term, from, to types.Type) Term {
	fb, fs, ok1 := intInfo(from)
	tb, ts, ok2 := intInfo(to)
	if !ok1 || !ok2 {
		panic("convertInt on non-integers")
	}
	fsort := intSort(fb, fc.mode)
	tsort := intSort(tb, fc.mode)
	if v.Sort != fsort {
		// tolerate (e.g. untyped const)
		fsort = v.Sort
	}
	switch {
	case fsort == SInt && tsort == SInt:
		// 64 -> 64 bit: reinterpret sign
		if fs == ts {
			return v
		}
		return wrapOnce(v, tb, ts)
	case fsort == SInt && tsort.IsBV():
		return int2bv(v, tb)
	case fsort.IsBV() && tsort == SInt:
		if fs {
			r := sbv2int(v)
			if !ts {
				return wrapOnce(r, tb, ts)
			}
			return r
		}
		return ubv2int(v)
	default:
		w := fsort.BVWidth()
		switch {
		case tb == w:
			return v
		case tb < w:
			return extract(v, tb-1, 0)
		default:
			if fs {
				return sext(v, tb)
			}
			return zext(v, tb)
		}
	}
}

// toIndex converts an integer value to an Int term (for memory offsets / lengths).
func (fc *FnCtx) toIndex(v Term, t types.Type) Term {
	if v.Sort == SInt {
		return v
	}
	_, signed, ok := intInfo(t)
	if !ok {
		signed = false
	}
	if signed {
		return sbv2int(v)
	}
	return ubv2int(v)
}

// fromIndex converts an Int term to the representation of Go type t.
func (fc *FnCtx) fromIndex(v Term, t types.Type) Term {
	bits, _, ok := intInfo(t)
	if !ok {
		return v
	}
	s := intSort(bits, fc.mode)
	if s == SInt {
		return v
	}
	return int2bv(v, bits)
}

// binop translates an arithmetic/logic/comparison operator on two values of Go type t.
// Returns the term and, for division-like ops, a side condition (divisor != 0).
func (fc *FnCtx) binop(op token.Token, x, y Term, t types.Type, yt types.Type) (Term, Term) {
	none := Term{}
	if x.Sort == SBool {
		switch op {
		case token.EQL:
			return Eq(x, y), none
		case token.NEQ:
			return Not(Eq(x, y)), none
		case token.LAND, token.AND:
			return And(x, y), none
		case token.LOR, token.OR:
			return Or(x, y), none
		}
	}
	if x.Sort == SStr {
		switch op {
		case token.EQL:
			return Eq(x, y), none
		case token.NEQ:
			return Not(Eq(x, y)), none
		case token.ADD:
			return mk(SStr, "s_cat", x, y), none
		case token.LSS:
			return mk(SBool, "s_lt", x, y), none
		case token.GTR:
			return mk(SBool, "s_lt", y, x), none
		case token.LEQ:
			return Not(mk(SBool, "s_lt", y, x)), none
		case token.GEQ:
			return Not(mk(SBool, "s_lt", x, y)), none
		}
	}
	bits, signed, isInt := intInfo(t)
	if !isInt {
		// arrays as bit-vectors / other leaves: only equality
		switch op {
		case token.EQL:
			return Eq(x, y), none
		case token.NEQ:
			return Not(Eq(x, y)), none
		}
		return Term{}, none
	}
	if x.Sort == SInt {
		switch op {
		case token.ADD, token.SUB, token.MUL:
			return fc.arith(op, x, y, bits, signed), none
		case token.QUO:
			if c, ok := intConst(y); ok && c > 0 {
				// division by a positive constant cannot overflow; for non-negative x it is floor division
				var r Term
				if signed {
					r = tdiv(x, y)
				} else {
					r = mk(SInt, "div", x, y)
				}
				fc.noteDivRem(r, false, x, c)
				return r, none
			}
			if signed {
				return wrapOnce(tdiv(x, y), bits, signed), Not(Eq(y, IntLit(0)))
			}
			return mk(SInt, "div", x, y), Not(Eq(y, IntLit(0)))
		case token.REM:
			if c, ok := intConst(y); ok && c > 0 {
				var r Term
				if signed {
					r = trem(x, y)
				} else {
					r = mk(SInt, "mod", x, y)
				}
				fc.noteDivRem(r, true, x, c)
				return r, none
			}
			if signed {
				return trem(x, y), Not(Eq(y, IntLit(0)))
			}
			return mk(SInt, "mod", x, y), Not(Eq(y, IntLit(0)))
		case token.EQL:
			return Eq(x, y), none
		case token.NEQ:
			return Not(Eq(x, y)), none
		case token.LSS:
			return Lt(x, y), none
		case token.LEQ:
			return Le(x, y), none
		case token.GTR:
			return Gt(x, y), none
		case token.GEQ:
			return Ge(x, y), none
		case token.AND, token.OR, token.XOR, token.AND_NOT:
			// special cases with constants
			if op == token.AND {
				if k, ok := pow2Mask(y); ok && !signed {
					return mk(SInt, "mod", x, IntLitBig(pow2(k))), none
				}
				if k, ok := pow2Mask(x); ok && !signed {
					return mk(SInt, "mod", y, IntLitBig(pow2(k))), none
				}
			}
			bx, by := int2bv(x, bits), int2bv(y, bits)
			var r Term
			switch op {
			case token.AND:
				r = bvop("bvand", bx, by)
			case token.OR:
				r = bvop("bvor", bx, by)
			case token.XOR:
				r = bvop("bvxor", bx, by)
			default:
				r = bvop("bvand", bx, mk(bx.Sort, "bvnot", by))
			}
			if signed {
				return sbv2int(r), none
			}
			return ubv2int(r), none
		case token.SHL, token.SHR:
			yi := y
			if y.Sort != SInt {
				yi = fc.toIndex(y, yt)
			}
			if c, ok := intConst(yi); ok && c >= 0 && c < 64 {
				p := IntLitBig(pow2(int(c)))
				if op == token.SHL {
					return wrapMul(Mul(x, p), bits, signed), none
				}
				// arithmetic shift right == floor division
				return mk(SInt, "div", x, p), none
			}
			bx := int2bv(x, bits)
			by := int2bv(yi, bits)
			big := Ge(yi, IntLit(int64(bits)))
			var r Term
			if op == token.SHL {
				r = bvop("bvshl", bx, by)
			} else if signed {
				r = bvop("bvashr", bx, by)
			} else {
				r = bvop("bvlshr", bx, by)
			}
			var ri Term
			if signed {
				ri = sbv2int(r)
				neg := Ite(Lt(x, IntLit(0)), IntLit(-1), IntLit(0))
				if op == token.SHL {
					neg = IntLit(0)
				}
				return Ite(big, neg, ri), none
			}
			ri = ubv2int(r)
			return Ite(big, IntLit(0), ri), none
		}
		return Term{}, none
	}
	// bit-vector
	w := x.Sort.BVWidth()
	switch op {
	case token.ADD:
		return bvop("bvadd", x, y), none
	case token.SUB:
		return bvop("bvsub", x, y), none
	case token.MUL:
		return bvop("bvmul", x, y), none
	case token.QUO:
		z := Not(Eq(y, BVLit64(0, w)))
		if signed {
			return bvop("bvsdiv", x, y), z
		}
		return bvop("bvudiv", x, y), z
	case token.REM:
		z := Not(Eq(y, BVLit64(0, w)))
		if signed {
			return bvop("bvsrem", x, y), z
		}
		return bvop("bvurem", x, y), z
	case token.AND:
		return bvop("bvand", x, y), none
	case token.OR:
		return bvop("bvor", x, y), none
	case token.XOR:
		return bvop("bvxor", x, y), none
	case token.AND_NOT:
		return bvop("bvand", x, mk(x.Sort, "bvnot", y)), none
	case token.EQL:
		return Eq(x, y), none
	case token.NEQ:
		return Not(Eq(x, y)), none
	case token.LSS:
		if signed {
			return bvcmp("bvslt", x, y), none
		}
		return bvcmp("bvult", x, y), none
	case token.LEQ:
		if signed {
			return bvcmp("bvsle", x, y), none
		}
		return bvcmp("bvule", x, y), none
	case token.GTR:
		if signed {
			return bvcmp("bvsgt", x, y), none
		}
		return bvcmp("bvugt", x, y), none
	case token.GEQ:
		if signed {
			return bvcmp("bvsge", x, y), none
		}
		return bvcmp("bvuge", x, y), none
	case token.SHL, token.SHR:
		// shift count: bring to width w, saturating
		var cnt Term
		var big Term = TFalse
		if y.Sort == SInt {
			cnt = int2bv(y, w)
			big = Ge(y, IntLit(int64(w)))
		} else {
			yw := y.Sort.BVWidth()
			switch {
			case yw == w:
				cnt = y
			case yw < w:
				cnt = zext(y, w)
			default:
				cnt = extract(y, w-1, 0)
				big = bvcmp("bvuge", y, BVLit64(uint64(w), yw))
			}
		}
		var r, sat Term
		if op == token.SHL {
			r = bvop("bvshl", x, cnt)
			sat = BVLit64(0, w)
		} else if signed {
			r = bvop("bvashr", x, cnt)
			sat = bvop("bvashr", x, BVLit64(uint64(w-1), w))
		} else {
			r = bvop("bvlshr", x, cnt)
			sat = BVLit64(0, w)
		}
		return Ite(big, sat, r), none
	}
	return Term{}, none
}

func intConst(t Term) (int64, bool) {
	var n int64
	if _, err := fmt.Sscanf(t.S, "%d", &n); err == nil && fmt.Sprintf("%d", n) == t.S {
		return n, true
	}
	return 0, false
}

// pow2Mask recognises literals 2^k-1.
func pow2Mask(t Term) (int, bool) {
	n, ok := new(big.Int).SetString(t.S, 10)
	if !ok || n.Sign() <= 0 {
		return 0, false
	}
	m := new(big.Int).Add(n, bigOne)
	if m.BitLen()-1 > 0 && new(big.Int).Lsh(bigOne, uint(m.BitLen()-1)).Cmp(m) == 0 {
		return m.BitLen() - 1, true
	}
	return 0, false
}
