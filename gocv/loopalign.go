package main

import (
	"bytes"
	"encoding/json"
	"go/ast"
	"go/printer"
	"os"
	"sort"

	"golang.org/x/tools/go/ssa"
)

// Loop contracts are keyed by the ordinal of the loop in its function (`loop 3`). A change that
// inserts or removes a loop would shift every later ordinal and attach the invariants to the
// wrong loops. To keep the binding stable, `-write-baseline` records for every function under
// contract the header texts of its loops in ordinal order (baseline/loops.json); a later check
// aligns the loops of the current source with that list (longest common subsequence on the
// header texts, then order-pairing of what is left between two matches) and gives each loop the
// ordinal it had on the unchanged tree. Loops that did not exist there get ordinals from 100
// (they have no contract). With identical lists -- always on the unchanged tree -- nothing changes.

// loopHeaderTexts: the for/range statements of the function (nested function literals
// excluded) in source order, as "for <init>; <cond>; <post>" / "for <k>, <v> := range <x>".
func loopHeaderTexts(fn *ssa.Function) []string {
	syn := fn.Syntax()
	if syn == nil {
		return nil
	}
	var body *ast.BlockStmt
	switch n := syn.(type) {
	case *ast.FuncDecl:
		body = n.Body
	case *ast.FuncLit:
		body = n.Body
	}
	if body == nil {
		return nil
	}
	pr := func(n ast.Node) string {
		if n == nil {
			return ""
		}
		var buf bytes.Buffer
		printer.Fprint(&buf, fn.Prog.Fset, n)
		return buf.String()
	}
	var out []string
	ast.Inspect(body, func(n ast.Node) bool {
		switch x := n.(type) {
		case *ast.FuncLit:
			return false
		case *ast.ForStmt:
			cond := ""
			if x.Cond != nil {
				cond = pr(x.Cond)
			}
			out = append(out, "for "+pr(x.Init)+"; "+cond+"; "+pr(x.Post))
		case *ast.RangeStmt:
			k, v := "", ""
			if x.Key != nil {
				k = pr(x.Key)
			}
			if x.Value != nil {
				v = pr(x.Value)
			}
			out = append(out, "for "+k+", "+v+" := range "+pr(x.X))
		}
		return true
	})
	return out
}

// alignLoops returns, for the n loops of fn in current ordinal order, the ordinals to use.
func (e *Engine) alignLoops(fn *ssa.Function, n int) []int {
	id := make([]int, n)
	for i := range id {
		id[i] = i
	}
	cur := loopHeaderTexts(fn)
	if len(cur) != n || fn.Pkg == nil {
		return id // some statement is not a natural loop (or vice versa): keep source ordinals
	}
	key := contractKey(fn.Pkg.Pkg.Path(), relName(fn))
	if e.curLoopSigs == nil {
		e.curLoopSigs = map[string][]string{}
	}
	e.curLoopSigs[key] = cur
	old, ok := e.loopSigs[key]
	if !ok {
		return id
	}
	same := len(old) == len(cur)
	for i := 0; same && i < len(cur); i++ {
		same = old[i] == cur[i]
	}
	if same {
		return id
	}
	// LCS
	m, k := len(old), len(cur)
	L := make([][]int, m+1)
	for i := range L {
		L[i] = make([]int, k+1)
	}
	for i := m - 1; i >= 0; i-- {
		for j := k - 1; j >= 0; j-- {
			if old[i] == cur[j] {
				L[i][j] = L[i+1][j+1] + 1
			} else if L[i+1][j] >= L[i][j+1] {
				L[i][j] = L[i+1][j]
			} else {
				L[i][j] = L[i][j+1]
			}
		}
	}
	res := make([]int, k)
	for j := range res {
		res[j] = -1
	}
	var gapOld, gapCur []int
	flush := func() {
		if len(gapOld) == len(gapCur) {
			for t := range gapCur {
				res[gapCur[t]] = gapOld[t] // same number of changed headers between two matches: paired in order
			}
		}
		gapOld, gapCur = nil, nil
	}
	i, j := 0, 0
	for i < m && j < k {
		switch {
		case old[i] == cur[j]:
			flush()
			res[j] = i
			i++
			j++
		case L[i+1][j] >= L[i][j+1]:
			gapOld = append(gapOld, i)
			i++
		default:
			gapCur = append(gapCur, j)
			j++
		}
	}
	for ; i < m; i++ {
		gapOld = append(gapOld, i)
	}
	for ; j < k; j++ {
		gapCur = append(gapCur, j)
	}
	flush()
	next := 100
	for j := range res {
		if res[j] < 0 {
			res[j] = next
			next++
		}
	}
	return res
}

func loadLoopSigs(path string) map[string][]string {
	m := map[string][]string{}
	if b, err := os.ReadFile(path); err == nil {
		json.Unmarshal(b, &m)
	}
	return m
}

// saveLoopSigs merges the header lists of the functions verified in this run into the file.
func (e *Engine) saveLoopSigs(path string) {
	m := loadLoopSigs(path)
	for k, v := range e.curLoopSigs {
		m[k] = v
	}
	keys := make([]string, 0, len(m))
	for k := range m {
		keys = append(keys, k)
	}
	sort.Strings(keys)
	var buf bytes.Buffer
	buf.WriteString("{\n")
	for i, k := range keys {
		kb, _ := json.Marshal(k)
		vb, _ := json.Marshal(m[k])
		buf.Write([]byte(" "))
		buf.Write(kb)
		buf.WriteString(": ")
		buf.Write(vb)
		if i < len(keys)-1 {
			buf.WriteString(",")
		}
		buf.WriteString("\n")
	}
	buf.WriteString("}\n")
	os.WriteFile(path, buf.Bytes(), 0644)
}
