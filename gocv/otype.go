package main

import (
	"go/types"
	"sort"

	"golang.org/x/tools/go/ssa"
)

// Object allocation types. Every object has an immutable allocation type
// otype(obj): the Go type it was allocated as (for make/append: "array of E").
// A slice []E can only point into an object whose allocation type contains an
// array of E; a pointer *T only into one that contains (or is) T. These facts
// give type-based non-aliasing, which sort-indexed heaps alone do not.

const extTypeID = 999999 // allocated by code outside the repository

func arrTag(elem types.Type) string { return "[...]" + types.TypeString(elem, nil) }

// collectAllocTypes scans the repository for allocation sites.
func (e *Engine) collectAllocTypes() {
	e.allocTypes = map[string]types.Type{}
	e.allocArr = map[string]types.Type{}
	for _, fn := range e.funcs {
		for _, b := range fn.Blocks {
			for _, ins := range b.Instrs {
				switch x := ins.(type) {
				case *ssa.Alloc:
					t := x.Type().Underlying().(*types.Pointer).Elem()
					e.allocTypes[types.TypeString(t, nil)] = t
				case *ssa.MakeSlice:
					el := x.Type().Underlying().(*types.Slice).Elem()
					e.allocArr[arrTag(el)] = el
				case *ssa.Call:
					if b, ok := x.Call.Value.(*ssa.Builtin); ok && b.Name() == "append" {
						if st, ok := x.Call.Args[0].Type().Underlying().(*types.Slice); ok {
							e.allocArr[arrTag(st.Elem())] = st.Elem()
						}
					}
				case *ssa.Convert:
					if st, ok := x.Type().Underlying().(*types.Slice); ok {
						e.allocArr[arrTag(st.Elem())] = st.Elem()
					}
				}
			}
		}
	}
	defer func() {
		// deterministic type ids: the query text must not depend on map iteration order
		var names []string
		for k := range e.allocTypes {
			names = append(names, k)
		}
		for k := range e.allocArr {
			names = append(names, k)
		}
		sort.Strings(names)
		for _, n := range names {
			e.typeIDByName(n)
		}
	}()
	for g := range e.globalIDs {
		if g.Pkg == nil || len(g.Pkg.Pkg.Path()) < len(repoMod) || g.Pkg.Pkg.Path()[:len(repoMod)] != repoMod {
			continue
		}
		t := g.Type().Underlying().(*types.Pointer).Elem()
		e.allocTypes[types.TypeString(t, nil)] = t
	}
}

// containsArrayOf: does allocation type t contain an array whose element type is el?
func containsArrayOf(t, el types.Type, depth int) bool {
	if depth > 6 {
		return true
	}
	switch u := t.Underlying().(type) {
	case *types.Array:
		if types.Identical(u.Elem(), el) {
			return true
		}
		return containsArrayOf(u.Elem(), el, depth+1)
	case *types.Struct:
		for i := 0; i < u.NumFields(); i++ {
			if containsArrayOf(u.Field(i).Type(), el, depth+1) {
				return true
			}
		}
	}
	return false
}

// containsType: does allocation type t contain (or equal) a value of type x?
func containsType(t, x types.Type, depth int) bool {
	if types.Identical(t, x) || depth > 6 {
		return true
	}
	switch u := t.Underlying().(type) {
	case *types.Array:
		return containsType(u.Elem(), x, depth+1)
	case *types.Struct:
		for i := 0; i < u.NumFields(); i++ {
			if containsType(u.Field(i).Type(), x, depth+1) {
				return true
			}
		}
	}
	return false
}

func (e *Engine) isRepoNamed(t types.Type) bool {
	n, ok := t.(*types.Named)
	if !ok || n.Obj().Pkg() == nil {
		return false
	}
	p := n.Obj().Pkg().Path()
	return len(p) >= len(repoMod) && p[:len(repoMod)] == repoMod
}

func otypeOf(obj Term) Term { return mk(SInt, "otype", obj) }

// otypeFact constrains the allocation type of the object behind a reference.
func (e *Engine) otypeFact(obj Term, t types.Type) Term {
	var ids []int64
	ext := true
	switch u := t.Underlying().(type) {
	case *types.Slice:
		el := u.Elem()
		if _, ok := e.allocArr[arrTag(el)]; ok || true {
			ids = append(ids, e.typeIDByName(arrTag(el)))
		}
		for k, at := range e.allocTypes {
			if containsArrayOf(at, el, 0) {
				ids = append(ids, e.typeIDByName(k))
			}
		}
	case *types.Pointer:
		tt := u.Elem()
		if e.isRepoNamed(tt) {
			if _, isStruct := tt.Underlying().(*types.Struct); isStruct {
				ext = false
			}
		}
		for k, at := range e.allocTypes {
			if containsType(at, tt, 0) {
				ids = append(ids, e.typeIDByName(k))
			}
		}
		// element of a heap array (slice backing)
		for k, el := range e.allocArr {
			if containsType(el, tt, 0) {
				ids = append(ids, e.typeIDByName(k))
			}
		}
	default:
		return TTrue
	}
	if len(ids) > 10 {
		return TTrue
	}
	sort.Slice(ids, func(i, j int) bool { return ids[i] < ids[j] })
	var cs []Term
	cs = append(cs, Eq(obj, IntLit(0)))
	for _, id := range ids {
		cs = append(cs, Eq(otypeOf(obj), IntLit(id)))
	}
	if ext {
		cs = append(cs, Eq(otypeOf(obj), IntLit(extTypeID)))
	}
	return Or(cs...)
}

func init() { _ = debugOtype }

var debugOtype = func(e *Engine, t types.Type) []string {
	var out []string
	if u, ok := t.Underlying().(*types.Pointer); ok {
		for k, at := range e.allocTypes {
			if containsType(at, u.Elem(), 0) {
				out = append(out, "T:"+k)
			}
		}
		for k, el := range e.allocArr {
			if containsType(el, u.Elem(), 0) {
				out = append(out, "A:"+k)
			}
		}
	}
	return out
}
